CONSTANTS P = 12289 GEN = 1331 LOGN = 12 Tier = "thorough"
INIT Init
NEXT Next
INVARIANT Lengths
INVARIANT Completeness
INVARIANT ValidAgrees
INVARIANT Linearity
INVARIANT HonestProofGadgetTest
INVARIANT EmitInv
CHECK_DEADLOCK FALSE
