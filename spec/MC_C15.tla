---------------------------- MODULE MC_C15 ----------------------------
(***************************************************************************)
(* C15: TLC enumerates EVERY tape over the symbol alphabet up to length D  *)
(* for every sampler layer and parameter, runs the CKS20 transducers of    *)
(* DpSamplers.tla and emits, for each tape on which the sampler terminates *)
(* having consumed the whole tape, the outcome -- for the replay on the    *)
(* real samplers and for the exact mass computation.  A tape symbol is a   *)
(* 16-bit value of which the sampler looks at the top b bits for a draw    *)
(* below a bound of bit length b: the tape is extended by every one of     *)
(* the 2^b values of exactly those bits, so each complete tape has          *)
(* probability 2^-(sum of the b's).                                         *)
(***************************************************************************)
EXTENDS DpSamplers, TLC, Json, IOUtils
CONSTANTS D        \* bound on the total number of random bits inspected along a tape
\* all values of the b bits the sampler is about to look at
Alphabet(b) == {k * (2 ^ (16 - b)) : k \in 0..(2 ^ b - 1)}
Cases == IF "C15_CASES" \in DOMAIN IOEnv /\ IOEnv.C15_CASES # "" THEN ndJsonDeserialize(IOEnv.C15_CASES) ELSE <<>>
\* Cases[i] = [layer, n, d]

VARIABLES st, nz
Init == st \in {[i |-> i, tape |-> <<>>, bits |-> <<>>] : i \in 1..Len(Cases)} /\ nz = 0
Result(s) == Run(Cases[s.i].layer, <<Cases[s.i].n, Cases[s.i].d>>, s.tape)
\* extend the tape while the sampler still wants input
RECURSIVE SumBits(_)
SumBits(s) == IF s = <<>> THEN 0 ELSE Head(s) + SumBits(Tail(s))
Next == /\ ~Result(st).ok /\ SumBits(st.bits) + Result(st).want <= D
        /\ \E h \in Alphabet(Result(st).want) : st' = [i |-> st.i, tape |-> Append(st.tape, h), bits |-> Append(st.bits, Result(st).want)]
        /\ UNCHANGED nz
\* a complete run: the sampler terminated exactly at the end of the tape
Complete(s) == s.i > 0 /\ Result(s).ok /\ Result(s).rest = <<>>
EmitInv == Complete(st) => PrintT(<<"REPLAY", ToJson([layer |-> Cases[st.i].layer, n |-> Cases[st.i].n, d |-> Cases[st.i].d, tape |-> st.tape,
                                                        bits |-> st.bits, out |-> Result(st).v])>>)
\* structural sanity of the algorithms on every explored tape: Bernoulli parameters are probabilities, outcomes are in range
Sane == Complete(st) =>
   LET c == Cases[st.i]  r == Result(st) IN
   CASE c.layer = "below" -> r.v \in 0..(c.n - 1)
     [] c.layer = "geometric_exp" -> r.v >= 0
     [] OTHER -> TRUE
\* ---- noise added to an aggregate share: one independent discrete-Laplace draw per coordinate with
\*      scale = sensitivity / epsilon, added as an integer (reduced into the field by the caller) ----
B == INSTANCE BigNat
Sensitivity(t) ==
  CASE t.kind = "SumVec" -> (2 ^ t.bits - 1) * t.len
    [] t.kind = "Histogram" -> 2
    [] t.kind = "L1BoundSum" -> 2 * t.max
NoiseCases == IF "C15_NOISE" \in DOMAIN IOEnv /\ IOEnv.C15_NOISE # "" THEN ndJsonDeserialize(IOEnv.C15_NOISE) ELSE <<>>
\* NoiseCases[i] = [t (type), en, ed (epsilon = en/ed), agg (small integers), tapes (one per coordinate)]
InitNoise == nz \in 1..Len(NoiseCases) /\ st = [i |-> 0, tape |-> <<>>, bits |-> <<>>]
NextNoise == UNCHANGED <<nz, st>>
\* Bounds and budgets beyond the model's integers (max_value = 2^63, 2^127, 2^127 + 1, ...): the case carries them as base-2^12
\* limbs together with a candidate scale sa/sb; the candidate is accepted iff  sensitivity * ed * sb = sa * en  over the naturals
\* (BigNat), i.e. iff it IS sensitivity / epsilon.
BigCase(c) == "maxl" \in DOMAIN c.t
BigScaleOK(c) == B!BigEq(B!BigMul(B!BigMul(<<2>>, c.t.maxl), B!BigMul(c.edl, B!FromInt(c.sb))), B!BigMul(B!FromInt(c.sa), c.enl))
NoiseEmit ==
  nz > 0 =>
  LET c == NoiseCases[nz]
      scale == IF BigCase(c) THEN Q(c.sa, c.sb) ELSE Q(Sensitivity(c.t) * c.ed, c.en)
      draws == [i \in 1..Len(c.agg) |-> Laplace(scale, c.tapes[i])]
  IN /\ (BigCase(c) => BigScaleOK(c))
     /\ \A i \in 1..Len(c.agg) : draws[i].ok /\ draws[i].rest = <<>>
     /\ PrintT(<<"REPLAY", ToJson([t |-> c.t, en |-> c.en, ed |-> c.ed, big |-> (IF BigCase(c) THEN [en_s |-> c.en_s, ed_s |-> c.ed_s] ELSE [en_s |-> "", ed_s |-> ""]), agg |-> c.agg, tapes |-> c.tapes, scale |-> scale,
                                   expect |-> [i \in 1..Len(c.agg) |-> c.agg[i] + draws[i].v]])>>)
=============================================================================
