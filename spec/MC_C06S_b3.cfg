CONSTANTS B = 3 MaxHist = 2
INIT InitScripts
NEXT NextScripts
INVARIANT EmitScripts
CHECK_DEADLOCK FALSE
