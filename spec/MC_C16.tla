---------------------------- MODULE MC_C16 ----------------------------
(* C16: the case lattice (built by the driver from boundary values) is judged by ApiDomain!Expect *)
EXTENDS ApiDomain, Json, IOUtils
Cases == ndJsonDeserialize(IOEnv.C16_CASES)
VARIABLE i
Init == i \in 1..Len(Cases)
Next == UNCHANGED i
EmitInv == PrintT(<<"REPLAY", ToJson([id |-> Cases[i].id, expect |-> Expect(Cases[i]), usable |-> Expect(Cases[i]) = "Ok" /\ Usable(Cases[i])])>>)
=============================================================================
