---------------------------- MODULE Prio3_Trace ----------------------------
(***************************************************************************)
(* Trace validation of real Prio3 executions (tiny-field instantiations,   *)
(* recording XOF) against Prio3.tla: every API call is one event carrying  *)
(* the byte strings it consumed and produced; the XOF streams it read come *)
(* before it.  TLC recomputes every output byte and every verdict.         *)
(***************************************************************************)
EXTENDS Prio3, Json, IOUtils

Rec == ndJsonDeserialize(IOEnv.TRACEFILE)

\* measurements arrive in the sequence form used by MC_C05
Scalar(c) == c.kind \in {"Count", "HigherDegree", "Sum", "Histogram"}
EncodeM(c, ms) == Encode(c, IF Scalar(c) THEN ms[1] ELSE ms)
PlainM(c, ms) == Plain(c, IF Scalar(c) THEN ms[1] ELSE ms)

VARIABLES l, X, inst
vars == <<l, X, inst>>
NoInst == [nagg |-> 0]

\* the spec could not recompute a value because the real code never made the XOF query the draft
\* prescribes: never a match, whatever the implementation returned
OracleErr(r) == ~r.ok /\ r.why \in {"oracle:helper", "oracle:part", "oracle:jrseed", "oracle:jr", "oracle:prove", "oracle:query"}

PrefixCompatible(a, b) == \A i \in 1..(IF Len(a) < Len(b) THEN Len(a) ELSE Len(b)) : a[i] = b[i]

\* the instance an aggregator runs: its events carry "algo" when it differs from the unit's (algorithm identifier mismatch)
I(e) == IF "algo" \in DOMAIN e THEN [inst EXCEPT !.algo = e.algo] ELSE inst
EventOK(e) ==
  CASE e.ev = "shard" ->
         LET enc == IF "raw" \in DOMAIN e THEN e.raw ELSE EncodeM(inst.c, e.m)
             r == Shard(X, inst, e.ctx, enc, e.nonce, e.rand)
         IN /\ r.ok = e.ok /\ ~OracleErr(r)
            /\ e.ok => (r.pub = e.pub /\ r.shares = e.shares)
    [] e.ev = "decode_fail" ->
         (CASE e.what = "pub" -> ~PubDecodes(inst, e.bytes)
            [] e.what = "share" -> e.j >= inst.nagg \/ ~ShareDecodes(inst, e.j, e.bytes)     \* j = decoding identifier here
            [] e.what = "vshare" -> ~VShareDecodes(inst, e.bytes)
            [] e.what = "state" -> ~StateDecodes(inst, e.j, e.bytes)
            [] e.what = "msg" -> ~MsgDecodes(inst, e.bytes)
            [] OTHER -> FALSE)
    [] e.ev = "vinit" ->
         \* dj = identifier under which the share bytes were decoded (its role); j = identifier used
         /\ PubDecodes(inst, e.pub) /\ (e.dj < inst.nagg => ShareDecodes(inst, e.dj, e.share))
         /\ LET r == VInitShaped(X, I(e), e.key, e.ctx, e.j, e.dj = 0, e.nonce, e.pub, e.share) IN
            /\ r.ok = e.ok /\ ~OracleErr(r)
            /\ e.ok => (r.vshare = e.vshare /\ r.state = e.state)
    [] e.ev = "s2m" ->
         /\ \A k \in 1..Len(e.vshares) : VShareDecodes(inst, e.vshares[k])
         /\ LET r == S2M(X, I(e), e.ctx, e.vshares) IN
            /\ r.ok = e.ok /\ ~OracleErr(r)
            /\ e.ok => r.msg = e.msg
    [] e.ev = "vnext" ->
         /\ StateDecodes(inst, e.j, e.state) /\ MsgDecodes(inst, e.msg)
         /\ LET r == VNext(X, I(e), e.ctx, e.j, e.state, e.msg) IN
            /\ r.ok = e.ok /\ ~OracleErr(r)
            /\ e.ok => r.out = e.out
    [] e.ev = "agg" -> EncVec(AggShare(inst, e.outs)) = e.agg
    [] e.ev = "unshard" -> Unshard(inst, e.aggs) = e.result
    [] e.ev = "honest" ->      \* C01 on the trace: the output shares of an honest, accepted report sum to the truncated encoding
         VecSum([k \in 1..Len(e.outs) |-> DecVec(e.outs[k], OutputLen(inst.c))], OutputLen(inst.c)) = Truncate(inst.c, EncodeM(inst.c, e.m))
    [] e.ev = "pair" ->        \* C17: same randomness and nonce, two measurements
         LET il == InputLen(inst.c)  n == inst.nagg
             lm1 == DecVec(SubSeq(e.shares1[1], 1, il * ENC), il)
             lm2 == DecVec(SubSeq(e.shares2[1], 1, il * ENC), il)
             tail(sh) == SubSeq(sh, (il + ProofLen(inst.c) * inst.np) * ENC + 1, Len(sh))      \* the leader's blind
         IN /\ \A j \in 2..n : e.shares1[j] = e.shares2[j]                     \* no helper byte depends on the measurement
            /\ VecSub(lm1, lm2) = VecSub(EncodeM(inst.c, e.m1), EncodeM(inst.c, e.m2))   \* the leader holds the encoding under a fixed mask
            /\ tail(e.shares1[1]) = tail(e.shares2[1])
            /\ Len(e.pub1) = Len(e.pub2)
            /\ \A i \in (SEED + 1)..Len(e.pub1) : e.pub1[i] = e.pub2[i]          \* only the leader's joint-randomness part may change
    [] e.ev = "batch" ->       \* C01: the unsharded result of an honest batch is the plain aggregate mod P
         e.result = [i \in 1..OutputLen(inst.c) |->
                       LET RECURSIVE tot(_)  tot(k) == IF k = 0 THEN 0 ELSE PlainM(inst.c, e.ms[k])[i] + tot(k - 1) IN tot(Len(e.ms)) % P]
    [] OTHER -> FALSE

Init == l = 1 /\ X = << >> /\ inst = NoInst
Next ==
  /\ l <= Len(Rec)
  /\ l' = l + 1
  /\ LET e == Rec[l] IN
     CASE e.ev = "begin" ->
            /\ e.p = P /\ e.seed = SEED
            /\ inst' = [c |-> e.c, nagg |-> e.nagg, np |-> e.np, algo |-> e.algo]
            /\ X' = << >>
       [] e.ev = "xof" ->
            LET k == Key(e.seed, e.dst, e.binder) IN
            /\ (k \in DOMAIN X => PrefixCompatible(X[k], e.out))     \* the XOF is a function of (seed, dst, binder)
            /\ X' = [kk \in DOMAIN X \cup {k} |->
                       IF kk = k /\ (k \notin DOMAIN X \/ Len(e.out) > Len(X[k])) THEN e.out ELSE X[kk]]
            /\ UNCHANGED inst
       [] OTHER -> EventOK(e) /\ UNCHANGED <<X, inst>>

Accepted ==
  IF TLCGet("stats").diameter - 1 = Len(Rec) THEN TRUE
  ELSE PrintT(<<"UNMATCHED", TLCGet("stats").diameter, Rec[TLCGet("stats").diameter].ev>>) /\ FALSE
=============================================================================
