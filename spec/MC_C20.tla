---------------------------- MODULE MC_C20 ----------------------------
(* C20: enumeration of aggregation-parameter histories and constructor/decoder inputs, with the *)
(* verdicts of AggParam.tla, replayed against Poplar1's is_agg_param_valid / try_from_prefixes / *)
(* decode and the single-use rule of Prio3 and Prio2.                                            *)
EXTENDS AggParam, TLC, Json
CONSTANTS B,        \* input bit length (levels 0..B-1)
          MaxHist,  \* histories up to this length
          Mode      \* "hist" | "ctor"

BitStrings(n) == [1..n -> {0, 1}]
RECURSIVE LexSort(_)
LexSort(S) == IF S = {} THEN <<>> ELSE LET m == CHOOSE x \in S : \A y \in S : x = y \/ LexLess(x, y) IN <<m>> \o LexSort(S \ {m})
ParamsAt(level) == {MkParam(LexSort(S)) : S \in (SUBSET BitStrings(level + 1)) \ {{}}}
AllParams == UNION {ParamsAt(l) : l \in 0..(B - 1)}
\* canonical numbering of the parameters (any fixed order; the list itself is emitted)
RECURSIVE Enum(_)
Enum(S) == IF S = {} THEN <<>> ELSE LET x == CHOOSE y \in S : TRUE IN <<x>> \o Enum(S \ {x})
ParamList == Enum(AllParams)
N == Len(ParamList)

\* the rule tells the wrong variants apart on the explored space (vacuity guard)
ASSUME Mode = "hist" => \E c \in AllParams, p1 \in AllParams, p2 \in AllParams :
          IsValid(c, <<p1, p2>>) # IsValidFirst(c, <<p1, p2>>)
ASSUME Mode = "hist" => \E c \in AllParams, p1 \in AllParams : IsValid(c, <<p1>>) # IsValidSome(c, <<p1>>)
ASSUME Mode = "hist" => \E c \in AllParams, p1 \in AllParams : IsValid(c, <<p1>>) # IsValidGeq(c, <<p1>>)

VARIABLE st
\* hist mode: st = [prev |-> sequence of parameter indices]
InitHist == st = [ph |-> "list"]
NextHist ==
  \/ st.ph = "list" /\ st' = [ph |-> "hist", prev |-> <<>>]
  \/ st.ph = "hist" /\ Len(st.prev) < MaxHist /\ \E i \in 1..N : st' = [ph |-> "hist", prev |-> Append(st.prev, i)]
PrevOf(s) == [k \in 1..Len(s.prev) |-> ParamList[s.prev[k]]]

\* properties of the rule itself
\* (1) along any history in which every step was admissible, levels strictly increase
\* (2) admissibility only depends on the most recent parameter
RuleSane ==
  st.ph = "hist" /\ Len(st.prev) >= 1 =>
    LET prev == PrevOf(st) IN
    \A i \in 1..N :
      LET c == ParamList[i] IN
      /\ IsValid(c, prev) = IsValid(c, <<prev[Len(prev)]>>)
      /\ IsValid(c, prev) => c.level > prev[Len(prev)].level

\* ctor mode: arbitrary prefix lists (unsorted, duplicated, mixed length, empty) and byte strings
Lists == {<<>>} \cup UNION {[1..n -> UNION {BitStrings(k) : k \in 0..B}] : n \in 1..3}
InitCtor == st \in {[ph |-> "ctor", ps |-> l] : l \in Lists}
           \cup {[ph |-> "dec0"]}
NextCtor ==
  /\ st.ph = "dec0"
  /\ \E a \in AllParams :
       LET e == EncParam(a) IN
       \/ st' = [ph |-> "dec", bytes |-> e]
       \/ \E i \in 7..Len(e), bit \in 0..7 :                          \* flip one bit of the prefix area
            st' = [ph |-> "dec", bytes |-> [e EXCEPT ![i] = IF (e[i] \div (2 ^ bit)) % 2 = 1 THEN e[i] - 2 ^ bit ELSE e[i] + 2 ^ bit]]
       \/ \E i \in 1..6, v \in {0, 1, 2, 255} : st' = [ph |-> "dec", bytes |-> [e EXCEPT ![i] = v]]   \* header bytes
       \/ \E k \in 0..(Len(e) - 1) : st' = [ph |-> "dec", bytes |-> SubSeq(e, 1, k)]             \* truncations
       \/ st' = [ph |-> "dec", bytes |-> e \o <<0>>]                                               \* trailing byte
       \/ st' = [ph |-> "dec", bytes |-> <<255, 255>> \o SubSeq(e, 3, Len(e))]                     \* level at its maximum
       \/ st' = [ph |-> "dec", bytes |-> SubSeq(e, 1, 2) \o <<255, 255, 255, 255>> \o SubSeq(e, 7, Len(e))]   \* count at its maximum
       \/ st' = [ph |-> "dec", bytes |-> <<255, 255, 255, 255, 255, 255>> \o SubSeq(e, 7, Len(e))]
CtorRoundTrip == st.ph = "ctor" /\ WellFormed(st.ps) => DecParam(EncParam(MkParam(st.ps))) = <<TRUE, MkParam(st.ps)>>
DecCanonical == st.ph = "dec" => LET d == DecParam(st.bytes) IN d[1] => EncParam(d[2]) = st.bytes

Emit ==
  CASE st.ph = "list" -> PrintT(<<"REPLAY", ToJson([t |-> "params", B |-> B, list |-> ParamList])>>)
    [] st.ph = "hist" -> PrintT(<<"REPLAY", ToJson([t |-> "hist", B |-> B, prev |-> st.prev,
                                   valid |-> [i \in 1..N |-> IsValid(ParamList[i], PrevOf(st))],
                                   single |-> IsValidSingleUse(st.prev)])>>)
    [] st.ph = "ctor" -> PrintT(<<"REPLAY", ToJson([t |-> "ctor", ps |-> st.ps, ok |-> WellFormed(st.ps),
                                   level |-> IF WellFormed(st.ps) THEN Len(st.ps[1]) - 1 ELSE -1,
                                   enc |-> IF WellFormed(st.ps) THEN EncParam(MkParam(st.ps)) ELSE <<>>])>>)
    [] st.ph = "dec" -> LET d == DecParam(st.bytes) IN
                        PrintT(<<"REPLAY", ToJson([t |-> "dec", bytes |-> st.bytes, ok |-> d[1],
                                   param |-> IF d[1] THEN d[2] ELSE [level |-> -1, prefixes |-> <<>>]])>>)
    [] OTHER -> TRUE
EmitInv == Emit
=============================================================================
