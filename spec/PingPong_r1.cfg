CONSTANTS R = 1 MaxFaults = 2 MaxSteps = 5
INIT Init
NEXT Next
INVARIANT OutputsCorrect
INVARIANT OrderOK
INVARIANT ReleaseOnlyOnTranscript
INVARIANT SequenceOK
INVARIANT EmitInv
CHECK_DEADLOCK FALSE
