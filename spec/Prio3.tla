---------------------------- MODULE Prio3 ----------------------------
(***************************************************************************)
(* Prio3 (draft-irtf-cfrg-vdaf-18, section 7) over GF(P), as functions of  *)
(* the byte strings exchanged and of an XOF oracle.                        *)
(*                                                                         *)
(* The XOF is a partial function  X[<<seed, dst, binder>>] = stream prefix *)
(* (an "oracle table"): in trace validation it is filled from the streams  *)
(* the real XOF produced, so that every derived byte can be recomputed     *)
(* here -- and a derivation that binds the wrong things (context, nonce,   *)
(* aggregator id, usage, number of proofs) asks for an entry that is not   *)
(* in the table.                                                           *)
(*                                                                         *)
(* An instance is [c, nagg, np, algo]: circuit, number of aggregators,     *)
(* number of proofs, algorithm id.  SEED is the seed size in bytes.        *)
(***************************************************************************)
EXTENDS Flp
CONSTANT SEED

\* ---- field element encoding and sampling (little endian, ENC bytes, bit mask, rejection) ----
RECURSIVE BitLenP(_)
BitLenP(n) == IF n = 0 THEN 0 ELSE 1 + BitLenP(n \div 2)
ENC == IF P < 256 THEN 1 ELSE 2
MaskMod == Pow2(BitLenP(P))
EncF(x) == IF ENC = 1 THEN <<x>> ELSE <<x % 256, x \div 256>>
EncVec(v) == Concat([i \in 1..Len(v) |-> EncF(v[i])])
ChunkVal(bs, i) == IF ENC = 1 THEN bs[i] ELSE bs[2*i - 1] + 256 * bs[2*i]     \* i-th ENC-byte chunk
DecVecOK(bs, n) == Len(bs) = n * ENC /\ \A i \in 1..n : ChunkVal(bs, i) < P
DecVec(bs, n) == [i \in 1..n |-> ChunkVal(bs, i)]
\* the first n field elements sampled from a stream: successive chunks, masked, rejected if >= P.
\* Returns <<ok, elements>>; ok = FALSE if the recorded stream prefix is too short.
RECURSIVE SampleGo(_, _, _, _)
SampleGo(bs, i, n, acc) ==
  IF n = 0 THEN <<TRUE, acc>>
  ELSE IF i * ENC > Len(bs) THEN <<FALSE, acc>>
  ELSE LET v == ChunkVal(bs, i) % MaskMod IN
       IF v < P THEN SampleGo(bs, i + 1, n - 1, Append(acc, v)) ELSE SampleGo(bs, i + 1, n, acc)
Sample(bs, n) == SampleGo(bs, 1, n, <<>>)

BE(n, k) == [i \in 1..k |-> (n \div (256 ^ (k - i))) % 256]
VERSION == 18
\* domain separation tag: version, algorithm class 0, algorithm id, usage, then the context
Dst(inst, usage, ctx) == <<VERSION, 0>> \o BE(inst.algo, 4) \o BE(usage, 2) \o ctx
USAGE_MEAS == 1   USAGE_PROOF == 2   USAGE_JR == 3   USAGE_PROVE == 4
USAGE_QUERY == 5  USAGE_JRSEED == 6  USAGE_JRPART == 7
ZeroSeed == [i \in 1..SEED |-> 0]

HasJR(inst) == JointRandLen(inst.c) > 0

\* ---- oracle access: every use is guarded by Has ----
Key(seed, dst, binder) == <<seed, dst, binder>>
Has(X, k) == k \in DOMAIN X
SeedOf(X, k) == SubSeq(X[k], 1, SEED)
HasSeed(X, k) == Has(X, k) /\ Len(X[k]) >= SEED
VecOK(X, k, n) == Has(X, k) /\ Sample(X[k], n)[1]
VecOf(X, k, n) == Sample(X[k], n)[2]

\* the queries
QMeas(inst, ctx, seed, j)  == Key(seed, Dst(inst, USAGE_MEAS, ctx), <<j>>)
QProof(inst, ctx, seed, j) == Key(seed, Dst(inst, USAGE_PROOF, ctx), <<inst.np, j>>)
QPart(inst, ctx, blind, j, nonce, measbytes) == Key(blind, Dst(inst, USAGE_JRPART, ctx), <<j>> \o nonce \o measbytes)
QJrSeed(inst, ctx, parts)  == Key(ZeroSeed, Dst(inst, USAGE_JRSEED, ctx), Concat(parts))
QJr(inst, ctx, jrseed)     == Key(jrseed, Dst(inst, USAGE_JR, ctx), <<inst.np>>)
QProve(inst, ctx, seed)    == Key(seed, Dst(inst, USAGE_PROVE, ctx), <<inst.np>>)
QQuery(inst, ctx, key, nonce) == Key(key, Dst(inst, USAGE_QUERY, ctx), <<inst.np>> \o nonce)

Err(why) == [ok |-> FALSE, why |-> why]
Piece(v, len, p) == SubSeq(v, (p - 1) * len + 1, p * len)      \* p-th block (1-based) of length len

RandSize(inst) == (IF HasJR(inst) THEN 2 ELSE 1) * inst.nagg * SEED

-----------------------------------------------------------------------------
(* Sharding.  enc = encoded measurement (Encode(c, m)).  Randomness is consumed in SEED-sized
   chunks: per helper j = 1..nagg-1 its share seed and (with joint randomness) its blind; then
   the leader's blind; then the prover's seed. *)
Shard(X, inst, ctx, enc, nonce, rand) ==
  LET c == inst.c  n == inst.nagg  jr == HasJR(inst)
      chunk(i) == SubSeq(rand, SEED * (i - 1) + 1, SEED * i)
      hseed(j) == chunk(IF jr THEN 2 * j - 1 ELSE j)                 \* j = 1..n-1
      hblind(j) == chunk(2 * j)
      lblind == chunk(2 * (n - 1) + 1)
      pseed == chunk(IF jr THEN 2 * (n - 1) + 2 ELSE n)
      il == InputLen(c)  pl == ProofLen(c) * inst.np
  IN
  IF Len(rand) # RandSize(inst) THEN Err("rand size")
  ELSE IF ~(\A j \in 1..(n - 1) : VecOK(X, QMeas(inst, ctx, hseed(j), j), il) /\ VecOK(X, QProof(inst, ctx, hseed(j), j), pl)) THEN Err("oracle:helper")
  ELSE
  LET hmeas == [j \in 1..(n - 1) |-> VecOf(X, QMeas(inst, ctx, hseed(j), j), il)]
      hproof == [j \in 1..(n - 1) |-> VecOf(X, QProof(inst, ctx, hseed(j), j), pl)]
      lmeas == VecSub(enc, VecSum(hmeas, il))
      partq(j) == IF j = 0 THEN QPart(inst, ctx, lblind, 0, nonce, EncVec(lmeas))
                  ELSE QPart(inst, ctx, hblind(j), j, nonce, EncVec(hmeas[j]))
  IN
  IF jr /\ ~(\A j \in 0..(n - 1) : HasSeed(X, partq(j))) THEN Err("oracle:part")
  ELSE
  LET parts == IF jr THEN [j \in 1..n |-> SeedOf(X, partq(j - 1))] ELSE <<>>
      jsq == QJrSeed(inst, ctx, parts)
  IN
  IF jr /\ ~HasSeed(X, jsq) THEN Err("oracle:jrseed")
  ELSE IF jr /\ ~VecOK(X, QJr(inst, ctx, SeedOf(X, jsq)), JointRandLen(c) * inst.np) THEN Err("oracle:jr")
  ELSE IF ~VecOK(X, QProve(inst, ctx, pseed), ProveRandLen(c) * inst.np) THEN Err("oracle:prove")
  ELSE
  LET jrs == IF jr THEN VecOf(X, QJr(inst, ctx, SeedOf(X, jsq)), JointRandLen(c) * inst.np) ELSE <<>>
      prs == VecOf(X, QProve(inst, ctx, pseed), ProveRandLen(c) * inst.np)
      proofs == Concat([p \in 1..inst.np |-> Prove(c, enc, Piece(prs, ProveRandLen(c), p), Piece(jrs, JointRandLen(c), p))])
      lproof == VecSub(proofs, VecSum(hproof, pl))
  IN [ok |-> TRUE,
      pub |-> Concat(parts),
      shares |-> [j \in 1..n |-> IF j = 1 THEN EncVec(lmeas) \o EncVec(lproof) \o (IF jr THEN lblind ELSE <<>>)
                                 ELSE hseed(j - 1) \o (IF jr THEN hblind(j - 1) ELSE <<>>)],
      \* for the properties: the plain shares
      meas |-> [j \in 1..n |-> IF j = 1 THEN lmeas ELSE hmeas[j - 1]]]

-----------------------------------------------------------------------------
(* verify_init of aggregator j (0-based) on the byte strings it received *)
LeaderShareLen(inst) == (InputLen(inst.c) + ProofLen(inst.c) * inst.np) * ENC + (IF HasJR(inst) THEN SEED ELSE 0)
HelperShareLen(inst) == SEED + (IF HasJR(inst) THEN SEED ELSE 0)
PubLen(inst) == IF HasJR(inst) THEN inst.nagg * SEED ELSE 0
\* decodability of the two messages (what get_decoded_with_param accepts)
PubDecodes(inst, pub) == Len(pub) = PubLen(inst)
ShareDecodes(inst, j, sh) ==
  IF j = 0 THEN Len(sh) = LeaderShareLen(inst)
                /\ DecVecOK(SubSeq(sh, 1, (InputLen(inst.c) + ProofLen(inst.c) * inst.np) * ENC), InputLen(inst.c) + ProofLen(inst.c) * inst.np)
  ELSE Len(sh) = HelperShareLen(inst)

\* `lead` says whether the share object is leader-shaped (explicit vectors) or helper-shaped (a
\* seed).  Honestly lead = (j = 0); an aggregator handed the other kind of share still binds its
\* own identifier j into every derivation (C18).
VInitShaped(X, inst, key, ctx, j, lead, nonce, pub, sh) ==
  LET c == inst.c  jr == HasJR(inst)  il == InputLen(c)  pl == ProofLen(c) * inst.np IN
  IF j >= inst.nagg THEN Err("role")
  ELSE
  LET seed == SubSeq(sh, 1, SEED)
      blind == IF lead THEN SubSeq(sh, (il + pl) * ENC + 1, (il + pl) * ENC + SEED) ELSE SubSeq(sh, SEED + 1, 2 * SEED)
  IN
  IF ~lead /\ ~(VecOK(X, QMeas(inst, ctx, seed, j), il) /\ VecOK(X, QProof(inst, ctx, seed, j), pl)) THEN Err("oracle:helper")
  ELSE
  LET meas == IF lead THEN DecVec(SubSeq(sh, 1, il * ENC), il) ELSE VecOf(X, QMeas(inst, ctx, seed, j), il)
      prf == IF lead THEN DecVec(SubSeq(sh, il * ENC + 1, (il + pl) * ENC), pl) ELSE VecOf(X, QProof(inst, ctx, seed, j), pl)
      pq == QPart(inst, ctx, blind, j, nonce, EncVec(meas))
  IN
  IF jr /\ ~HasSeed(X, pq) THEN Err("oracle:part")
  ELSE
  LET own == IF jr THEN SeedOf(X, pq) ELSE <<>>
      parts == [k \in 1..inst.nagg |-> IF k = j + 1 THEN own ELSE SubSeq(pub, SEED * (k - 1) + 1, SEED * k)]
      jsq == QJrSeed(inst, ctx, parts)
  IN
  IF jr /\ ~HasSeed(X, jsq) THEN Err("oracle:jrseed")
  ELSE IF jr /\ ~VecOK(X, QJr(inst, ctx, SeedOf(X, jsq)), JointRandLen(c) * inst.np) THEN Err("oracle:jr")
  ELSE IF ~VecOK(X, QQuery(inst, ctx, key, nonce), QueryRandLen(c) * inst.np) THEN Err("oracle:query")
  ELSE
  LET jrseed == IF jr THEN SeedOf(X, jsq) ELSE <<>>
      jrs == IF jr THEN VecOf(X, QJr(inst, ctx, jrseed), JointRandLen(c) * inst.np) ELSE <<>>
      qrs == VecOf(X, QQuery(inst, ctx, key, nonce), QueryRandLen(c) * inst.np)
      qr(p) == Piece(qrs, QueryRandLen(c), p)
  IN
  IF \E p \in 1..inst.np : IsWireRoot(c, qr(p)[QueryRandLen(c)]) THEN Err("query point is a wire-domain root of unity")
  ELSE
  LET ver == Concat([p \in 1..inst.np |-> Query(c, meas, Piece(prf, ProofLen(c), p), qr(p), Piece(jrs, JointRandLen(c), p), inst.nagg)])
  IN [ok |-> TRUE,
      vshare |-> EncVec(ver) \o own,
      state |-> (IF lead THEN EncVec(Truncate(c, meas)) ELSE seed) \o jrseed,
      out |-> Truncate(c, meas)]
VInit(X, inst, key, ctx, j, nonce, pub, sh) == VInitShaped(X, inst, key, ctx, j, j = 0, nonce, pub, sh)

-----------------------------------------------------------------------------
(* verifier_shares_to_message on the list of encoded verifier shares *)
VShareLen(inst) == VerifierLen(inst.c) * inst.np * ENC + (IF HasJR(inst) THEN SEED ELSE 0)
VShareDecodes(inst, vs) == Len(vs) = VShareLen(inst) /\ DecVecOK(SubSeq(vs, 1, VerifierLen(inst.c) * inst.np * ENC), VerifierLen(inst.c) * inst.np)
S2M(X, inst, ctx, vss) ==
  LET c == inst.c  vl == VerifierLen(c) * inst.np IN
  IF Len(vss) # inst.nagg THEN Err("count")
  ELSE
  LET vers == [k \in 1..Len(vss) |-> DecVec(SubSeq(vss[k], 1, vl * ENC), vl)]
      parts == [k \in 1..Len(vss) |-> SubSeq(vss[k], vl * ENC + 1, vl * ENC + SEED)]
      tot == VecSum(vers, vl)
  IN
  IF \E p \in 1..inst.np : ~Decide(c, Piece(tot, VerifierLen(c), p)) THEN Err("decide")
  ELSE IF ~HasJR(inst) THEN [ok |-> TRUE, msg |-> <<>>]
  ELSE IF ~HasSeed(X, QJrSeed(inst, ctx, parts)) THEN Err("oracle:jrseed")
  ELSE [ok |-> TRUE, msg |-> SeedOf(X, QJrSeed(inst, ctx, parts))]

(* verify_next of aggregator j on its encoded state and the encoded verifier message *)
StateLen(inst, j) == (IF j = 0 THEN OutputLen(inst.c) * ENC ELSE SEED) + (IF HasJR(inst) THEN SEED ELSE 0)
StateDecodes(inst, j, st) == j < inst.nagg /\ Len(st) = StateLen(inst, j) /\ (j = 0 => DecVecOK(SubSeq(st, 1, OutputLen(inst.c) * ENC), OutputLen(inst.c)))
MsgDecodes(inst, msg) == Len(msg) = (IF HasJR(inst) THEN SEED ELSE 0)
VNext(X, inst, ctx, j, st, msg) ==
  LET c == inst.c  body == IF j = 0 THEN OutputLen(c) * ENC ELSE SEED IN
  IF HasJR(inst) /\ SubSeq(st, body + 1, body + SEED) # msg THEN Err("joint randomness mismatch")
  ELSE IF j = 0 THEN [ok |-> TRUE, out |-> EncVec(DecVec(SubSeq(st, 1, body), OutputLen(c)))]
  ELSE LET q == QMeas(inst, ctx, SubSeq(st, 1, SEED), j) IN
       IF ~VecOK(X, q, InputLen(c)) THEN Err("oracle:helper")
       ELSE [ok |-> TRUE, out |-> EncVec(Truncate(c, VecOf(X, q, InputLen(c))))]

(* aggregation and unsharding *)
AggShare(inst, outs) == VecSum([k \in 1..Len(outs) |-> DecVec(outs[k], OutputLen(inst.c))], OutputLen(inst.c))
Unshard(inst, aggs) == VecSum([k \in 1..Len(aggs) |-> DecVec(aggs[k], OutputLen(inst.c))], OutputLen(inst.c))
=============================================================================
