CONSTANTS B = 3 MaxHist = 0 Mode = "ctor"
INIT InitCtor
NEXT NextCtor
INVARIANT CtorRoundTrip
INVARIANT DecCanonical
INVARIANT EmitInv
CHECK_DEADLOCK FALSE
