INIT Init
NEXT Next
INVARIANT EmitInv
CHECK_DEADLOCK FALSE
