---------------------------- MODULE Aggregation ----------------------------
(***************************************************************************)
(* Aggregation of output shares (draft-irtf-cfrg-vdaf section 5.4/5.5):    *)
(* an aggregator may split the verified reports of a batch into any number *)
(* of partial aggregates, accumulate output shares into them in any order, *)
(* and merge partial aggregates in any order / tree shape; shares of the   *)
(* wrong length or (Poplar1) wrong level kind are refused and leave the    *)
(* accumulator unchanged.  The result must be the single-pass sum.         *)
(*                                                                         *)
(* Values live in Z_M for M > 0 (tiny field, so wrap-around happens) or in *)
(* the integers for M = 0 (small positive and negative values that are     *)
(* mapped into any field by the harness).                                  *)
(***************************************************************************)
EXTENDS Integers, Sequences, FiniteSets, TLC, Json
CONSTANTS M,        \* modulus, or 0 for exact integers
          Shares,   \* sequence of [kind, vec]: the good output shares
          Bad,      \* sequence of [kind, vec]: shares that must be refused (wrong length / kind)
          Kind,     \* kind of the aggregate being computed
          L,        \* its length
          MaxAccs,  \* at most this many partial aggregates alive
          MaxSteps

Red(x) == IF M = 0 THEN x ELSE ((x % M) + M) % M
VAdd(a, b) == [i \in 1..Len(a) |-> Red(a[i] + b[i])]
Zero == [i \in 1..L |-> 0]
RECURSIVE SumOf(_)
SumOf(S) == IF S = {} THEN Zero ELSE LET i == CHOOSE j \in S : TRUE IN VAdd(Shares[i].vec, SumOf(S \ {i}))

VARIABLES accs,   \* sequence of [vec, used] (used = set of share indices folded in); dead slots have used = {-1}
          hist
vars == <<accs, hist>>
Dead == [vec |-> <<>>, used |-> {-1}]
Alive(a) == a \in 1..Len(accs) /\ accs[a] # Dead
UsedAll == UNION {accs[a].used : a \in {b \in 1..Len(accs) : accs[b] # Dead}}
Compatible(sh) == sh.kind = Kind /\ Len(sh.vec) = L

Init == accs = <<>> /\ hist = <<>>
Step(op) == hist' = Append(hist, op)
NewAcc ==
  /\ Cardinality({a \in 1..Len(accs) : accs[a] # Dead}) < MaxAccs
  \* symmetry breaking: creating an empty aggregate commutes with everything else, so one is
  \* created only when no other empty one is waiting
  /\ \A a \in 1..Len(accs) : accs[a] # Dead => accs[a].used # {}
  /\ accs' = Append(accs, [vec |-> Zero, used |-> {}])
  /\ Step([op |-> "init", acc |-> Len(accs) + 1, ok |-> TRUE, expect |-> Zero])
Accumulate ==
  \E a \in 1..Len(accs), i \in 1..Len(Shares) :
    /\ Alive(a) /\ i \notin UsedAll
    /\ accs' = [accs EXCEPT ![a] = [vec |-> VAdd(@.vec, Shares[i].vec), used |-> @.used \cup {i}]]
    /\ Step([op |-> "accumulate", acc |-> a, share |-> i, ok |-> TRUE, expect |-> accs'[a].vec])
Merge ==
  \E a, b \in 1..Len(accs) :
    /\ a # b /\ Alive(a) /\ Alive(b)
    /\ accs' = [accs EXCEPT ![a] = [vec |-> VAdd(@.vec, accs[b].vec), used |-> @.used \cup accs[b].used], ![b] = Dead]
    /\ Step([op |-> "merge", acc |-> a, from |-> b, ok |-> TRUE, expect |-> accs'[a].vec])
\* faults: an incompatible share (or aggregate built from one) offered to an accumulator
BadAccumulate ==
  \E a \in 1..Len(accs), i \in 1..Len(Bad) :
    /\ Alive(a) /\ ~Compatible(Bad[i])
    /\ UNCHANGED accs
    /\ Step([op |-> "bad_accumulate", acc |-> a, bad |-> i, ok |-> FALSE, expect |-> accs[a].vec])
BadMerge ==
  \E a \in 1..Len(accs), i \in 1..Len(Bad) :
    /\ Alive(a) /\ ~Compatible(Bad[i])
    /\ UNCHANGED accs
    /\ Step([op |-> "bad_merge", acc |-> a, bad |-> i, ok |-> FALSE, expect |-> accs[a].vec])
FaultBudget == Cardinality({k \in 1..Len(hist) : hist[k].ok = FALSE}) < 1
Done == /\ UsedAll = 1..Len(Shares)
        /\ Cardinality({a \in 1..Len(accs) : accs[a] # Dead}) = 1
Next ==
  /\ Len(hist) < MaxSteps
  /\ ~Done
  /\ \/ NewAcc \/ Accumulate \/ Merge
     \/ (FaultBudget /\ (BadAccumulate \/ BadMerge))
Spec == Init /\ [][Next]_vars

\* ---- C13 on the model ----
\* every partial aggregate is the sum of exactly the shares folded into it (so order, grouping and
\* tree shape are irrelevant), and no share is counted twice
PartialSums == \A a \in 1..Len(accs) : accs[a] # Dead => accs[a].vec = SumOf(accs[a].used)
NoDoubleCount == \A a, b \in 1..Len(accs) : (a # b /\ accs[a] # Dead /\ accs[b] # Dead) => accs[a].used \cap accs[b].used = {}
FinalIsSinglePass == Done => \E a \in 1..Len(accs) : accs[a] # Dead /\ accs[a].vec = SumOf(1..Len(Shares))
EmitInv ==
  /\ hist = <<>> => PrintT(<<"REPLAY", ToJson([config |-> TRUE, shares |-> Shares, bad |-> Bad, L |-> L, kind |-> Kind, M |-> M])>>)
  /\ (Done \/ Len(hist) = MaxSteps) => PrintT(<<"REPLAY", ToJson([done |-> Done, hist |-> hist])>>)
=============================================================================
