CONSTANTS N = 15 B = 3 Sizes = {1, 2, 3} MaxSteps = 6
INIT Init
NEXT Next
INVARIANT Refines
INVARIANT NoSkipNoReread
CONSTRAINT Bound
CHECK_DEADLOCK FALSE
