CONSTANTS P = 17 N = 3 VLen = 2 FoldInit = 0 ReduceInit = 1 MaxIdent = 1
INIT Init
NEXT Next
INVARIANT SameAsSerial
CHECK_DEADLOCK FALSE
