CONSTANTS P = 17 GEN = 3 LOGN = 4 Tier = "thorough"
INIT InitEnc
NEXT Next
INVARIANT EncodeOK
INVARIANT EmitInv
CHECK_DEADLOCK FALSE
