CONSTANTS P = 40961 GEN = 243 LOGN = 13 MaxLog = 6 Basis = "some"
INIT Init
NEXT Next
INVARIANT DefsSane
INVARIANT EmitInv
CHECK_DEADLOCK FALSE
