CONSTANTS P = 17 GEN = 3 LOGN = 4
INIT Init
NEXT Next
POSTCONDITION Accepted
CHECK_DEADLOCK FALSE
