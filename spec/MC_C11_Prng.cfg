INIT InitPrng
NEXT Next
INVARIANT ScriptSane
INVARIANT EmitInv
CHECK_DEADLOCK FALSE
