---------------------------- MODULE MC_C06 ----------------------------
(***************************************************************************)
(* C06 on the model: (1) reconstruction for every input, prefix, key pair  *)
(* and a family of PRG tables; (2) cache transparency: evaluating through  *)
(* any cache (never lying about a stored node state, but free to forget)   *)
(* after any history of evaluations gives the cache-free result; the       *)
(* lookup starts at the longest proper prefix and walks up.                *)
(***************************************************************************)
EXTENDS Idpf, TLC
CONSTANTS B, MaxHist

BitStrings(n) == [1..n -> {0, 1}]
Prefixes == UNION {BitStrings(n) : n \in 1..B}
\* a family of PRG tables: affine scramblers of the seed, different per level and per table index
Table(k) == [ext |-> [l \in 1..B |-> [s \in SeedSpace |->
                 [sl |-> (3 * s + k + l) % (2 ^ SB), tl |-> ((s \div 2) + k) % 2, sr |-> (5 * s + 2 * k + 1) % (2 ^ SB), tr |-> (s + l + (k \div 2)) % 2]]],
             conv |-> [l \in 1..B |-> [s \in SeedSpace |-> [s |-> (7 * s + 3 * k + l) % (2 ^ SB), w |-> (s * s + k + 2 * l) % M]]]]
Tables == {Table(k) : k \in 0..3}

VARIABLES G, alpha, beta, k0, k1, cache, hist
vars == <<G, alpha, beta, k0, k1, cache, hist>>
Init == /\ G \in Tables /\ alpha \in BitStrings(B) /\ beta \in [1..B -> {1, M - 1}] /\ k0 \in {0, 5} /\ k1 \in {3, 6}
        /\ cache = [b \in {0, 1} |-> << >>]       \* per party: partial function prefix -> node state [s, t]
        /\ hist = <<>>

CWs == Gen(G, alpha, beta, k0, k1)
\* evaluation of party b at prefix through the cache c (a partial function), as Idpf::eval does:
\* look up the longest proper prefix present, walk down from there, offer every node on the way to the cache
RECURSIVE LongestCached(_, _)
LongestCached(c, p) == IF p = <<>> THEN <<>> ELSE IF p \in DOMAIN c THEN p ELSE LongestCached(c, SubSeq(p, 1, Len(p) - 1))
EvalCached(b, c, prefix) ==
  LET start == IF Len(prefix) > 1 THEN LongestCached(c, SubSeq(prefix, 1, Len(prefix) - 1)) ELSE <<>>
      st0 == IF start = <<>> THEN Root(b, IF b = 0 THEN k0 ELSE k1) ELSE [s |-> c[start].s, t |-> c[start].t, y |-> 0]
  IN EvalFrom(G, b, CWs, prefix, Len(start), st0)
\* node states on the way (what eval_from_node offers to the cache): prefixes start+1 .. min(Len, B-1)
NodesOffered(b, c, prefix) ==
  LET start == IF Len(prefix) > 1 THEN LongestCached(c, SubSeq(prefix, 1, Len(prefix) - 1)) ELSE <<>>
      st0 == IF start = <<>> THEN Root(b, IF b = 0 THEN k0 ELSE k1) ELSE [s |-> c[start].s, t |-> c[start].t, y |-> 0]
  IN [q \in {SubSeq(prefix, 1, n) : n \in (Len(start) + 1)..(IF Len(prefix) = B THEN B - 1 ELSE Len(prefix))} |->
        LET st == EvalFrom(G, b, CWs, q, Len(start), st0) IN [s |-> st.s, t |-> st.t]]
\* an evaluation step: the cache keeps any subset of what it had and of what it was offered
\* (covers no cache, a hash map, a ring buffer of any capacity and a lossy cache)
Step ==
  /\ Len(hist) < MaxHist
  /\ \E b \in {0, 1}, p \in Prefixes :
       LET offered == NodesOffered(b, cache[b], p)
           all == [q \in DOMAIN cache[b] \cup DOMAIN offered |-> IF q \in DOMAIN cache[b] THEN cache[b][q] ELSE offered[q]]
       IN \E keep \in SUBSET (DOMAIN all) :
            /\ cache' = [cache EXCEPT ![b] = [q \in keep |-> all[q]]]
            /\ hist' = Append(hist, [b |-> b, p |-> p, y |-> EvalCached(b, cache[b], p).y])
  /\ UNCHANGED <<G, alpha, beta, k0, k1>>
Next == Step

ReconstructsAll == hist = <<>> => \A p \in Prefixes : Reconstructs(G, alpha, beta, k0, k1, p)
\* whatever the history and the cache contents, every evaluation equals the cache-free one
CacheTransparent == \A i \in 1..Len(hist) : hist[i].y = Eval(G, hist[i].b, CWs, IF hist[i].b = 0 THEN k0 ELSE k1, hist[i].p).y
\* cached node states are always the true node states of their prefixes
CacheSound == \A b \in {0, 1} : \A q \in DOMAIN cache[b] :
   LET st == Eval(G, b, CWs, IF b = 0 THEN k0 ELSE k1, q) IN cache[b][q] = [s |-> st.s, t |-> st.t]
=============================================================================
