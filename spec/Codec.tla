---------------------------- MODULE Codec ----------------------------
(***************************************************************************)
(* Wire formats of libprio-rs (TLS presentation syntax subset, draft-irtf-  *)
(* cfrg-vdaf-18 sections 5.x "message serialization", 8.2.6) as *total*     *)
(* decoders on byte strings: Dec(g, bs) is TRUE iff bs is the encoding of   *)
(* exactly one value of the message type with grammar g -- no trailing      *)
(* bytes, canonical field elements, zero padding bits, known tags.          *)
(*                                                                         *)
(* A grammar is a sequence of items:                                       *)
(*   [k |-> "bytes", n]            n opaque bytes                           *)
(*   [k |-> "elems", f, n]         n field elements of field f, each < p    *)
(*   [k |-> "tag", alts]           one byte t in DOMAIN alts, then alts[t]  *)
(*   [k |-> "opaque", w]           w-byte big-endian length L, then L bytes *)
(*   [k |-> "items", w, size]      w-byte length L, then L bytes of items   *)
(*                                 of `size` bytes each (L % size = 0)      *)
(*   [k |-> "cbits", bits]         2*bits control bits packed LSB-first,    *)
(*                                 unused bits zero                         *)
(*   [k |-> "counted", f]          4-byte count c, then c elements of f     *)
(***************************************************************************)
EXTENDS BigNat, TLC

FieldSize(f) == CASE f = "FieldV17" -> 1 [] f = "FieldV193" -> 1 [] f = "FieldV12289" -> 2 [] f = "FieldV40961" -> 2
                  [] f = "FieldPrio2" -> 4 [] f = "Field64" -> 8 [] f = "Field128" -> 16 [] f = "Field255" -> 32
FieldPrime(f) ==
  CASE f = "FieldV17" -> <<17>> [] f = "FieldV193" -> <<193>> [] f = "FieldV12289" -> FromInt(12289) [] f = "FieldV40961" -> FromInt(40961)
    [] f = "FieldPrio2" -> BigAdd(BigSub(Pow2Big(32), Pow2Big(20)), <<1>>)
    [] f = "Field64"    -> BigAdd(BigSub(Pow2Big(64), Pow2Big(32)), <<1>>)
    [] f = "Field128"   -> BigAdd(BigSub(Pow2Big(128), BigMul(<<7>>, Pow2Big(66))), <<1>>)
    [] f = "Field255"   -> BigSub(Pow2Big(255), <<19>>)
Canonical(f, chunk) == BigLt(BytesLE(chunk), FieldPrime(f))

RECURSIVE BEVal(_)
BEVal(bs) == IF bs = <<>> THEN 0 ELSE BEVal(SubSeq(bs, 1, Len(bs) - 1)) * 256 + bs[Len(bs)]    \* callers keep this below 2^31
\* a length prefix that cannot possibly be backed by the remaining input is "too big" without computing it
LenPrefix(bs, w) ==      \* -1 if >= 2^24 (none of the explored inputs is that long)
  IF \E i \in 1..(w - 3) : bs[i] # 0 THEN -1 ELSE BEVal(SubSeq(bs, (IF w > 3 THEN w - 2 ELSE 1), w))

RECURSIVE Dec(_, _)
Dec(g, bs) ==
  IF g = <<>> THEN bs = <<>>                       \* nothing may be left over
  ELSE
  LET it == Head(g)  rest == Tail(g)  n == Len(bs) IN
  CASE it.k = "bytes" -> n >= it.n /\ Dec(rest, SubSeq(bs, it.n + 1, n))
    [] it.k = "elems" ->
         LET sz == FieldSize(it.f) IN
         /\ n >= it.n * sz
         /\ \A i \in 1..it.n : Canonical(it.f, SubSeq(bs, (i - 1) * sz + 1, i * sz))
         /\ Dec(rest, SubSeq(bs, it.n * sz + 1, n))
    [] it.k = "tag" -> n >= 1 /\ bs[1] \in DOMAIN it.alts /\ Dec(it.alts[bs[1]] \o rest, SubSeq(bs, 2, n))
    [] it.k = "opaque" ->
         /\ n >= it.w
         /\ LET L == LenPrefix(bs, it.w) IN L >= 0 /\ L <= n - it.w /\ Dec(rest, SubSeq(bs, it.w + L + 1, n))
    [] it.k = "items" ->
         /\ n >= it.w
         /\ LET L == LenPrefix(bs, it.w) IN L >= 0 /\ L <= n - it.w /\ L % it.size = 0 /\ Dec(rest, SubSeq(bs, it.w + L + 1, n))
    [] it.k = "cbits" ->
         LET nb == (2 * it.bits + 7) \div 8
             bit(j) == (bs[((j - 1) \div 8) + 1] \div (2 ^ ((j - 1) % 8))) % 2          \* j-th bit, LSB first
         IN /\ n >= nb
            /\ \A j \in (2 * it.bits + 1)..(8 * nb) : bit(j) = 0
            /\ Dec(rest, SubSeq(bs, nb + 1, n))
    [] it.k = "counted" ->
         /\ n >= 4
         /\ LET c == LenPrefix(bs, 4)  sz == FieldSize(it.f) IN
            /\ c >= 0 /\ c * sz <= n - 4
            /\ \A i \in 1..c : Canonical(it.f, SubSeq(bs, 4 + (i - 1) * sz + 1, 4 + i * sz))
            /\ Dec(rest, SubSeq(bs, 4 + c * sz + 1, n))

\* Decoding from a cursor inside a larger message: the number of bytes a decoder for grammar g consumes from the front
\* of bs, or -1 if no prefix of bs is an encoding (what follows the message is not the decoder's business).
RECURSIVE DecLen(_, _)
DecLen(g, bs) ==
  IF g = <<>> THEN 0
  ELSE
  LET it == Head(g)  rest == Tail(g)  n == Len(bs)
      then(used, g2) == IF used > n THEN -1 ELSE LET r == DecLen(g2, SubSeq(bs, used + 1, n)) IN IF r < 0 THEN -1 ELSE used + r
  IN
  CASE it.k = "bytes" -> then(it.n, rest)
    [] it.k = "elems" ->
         LET sz == FieldSize(it.f) IN
         IF n >= it.n * sz /\ \A i \in 1..it.n : Canonical(it.f, SubSeq(bs, (i - 1) * sz + 1, i * sz)) THEN then(it.n * sz, rest) ELSE -1
    [] it.k = "tag" -> IF n >= 1 /\ bs[1] \in DOMAIN it.alts THEN then(1, it.alts[bs[1]] \o rest) ELSE -1
    [] it.k = "opaque" ->
         IF n < it.w THEN -1 ELSE LET L == LenPrefix(bs, it.w) IN IF L >= 0 /\ L <= n - it.w THEN then(it.w + L, rest) ELSE -1
    [] it.k = "items" ->
         IF n < it.w THEN -1 ELSE LET L == LenPrefix(bs, it.w) IN IF L >= 0 /\ L <= n - it.w /\ L % it.size = 0 THEN then(it.w + L, rest) ELSE -1
    [] it.k = "cbits" ->
         LET nb == (2 * it.bits + 7) \div 8
             bit(j) == (bs[((j - 1) \div 8) + 1] \div (2 ^ ((j - 1) % 8))) % 2
         IN IF n >= nb /\ \A j \in (2 * it.bits + 1)..(8 * nb) : bit(j) = 0 THEN then(nb, rest) ELSE -1
    [] it.k = "counted" ->
         IF n < 4 THEN -1 ELSE
         LET c == LenPrefix(bs, 4)  sz == FieldSize(it.f) IN
         IF c >= 0 /\ c * sz <= n - 4 /\ \A i \in 1..c : Canonical(it.f, SubSeq(bs, 4 + (i - 1) * sz + 1, 4 + i * sz)) THEN then(4 + c * sz, rest) ELSE -1

\* size in bytes that the decoding parameter itself implies (for the allocation envelope of C08)
RECURSIVE Implied(_)
Implied(g) ==
  IF g = <<>> THEN 0
  ELSE LET it == Head(g) IN
       (CASE it.k = "bytes" -> it.n
          [] it.k = "elems" -> it.n * FieldSize(it.f)
          [] it.k = "cbits" -> (2 * it.bits + 7) \div 8
          [] OTHER -> 8) + Implied(Tail(g))

-----------------------------------------------------------------------------
(* grammars of the message types, from instance descriptors *)
Bytes(n) == [k |-> "bytes", n |-> n]
Elems(f, n) == [k |-> "elems", f |-> f, n |-> n]
Opt(b, item) == IF b THEN <<item>> ELSE <<>>

\* Prio3: d = [f, il, pl, vl, ol, jr, nagg, np, seed]  (lengths of the FLP, joint randomness?, sizes)
P3Pub(d) == Opt(d.jr, Bytes(d.nagg * d.seed))
P3Share(d, j) == IF j = 0 THEN <<Elems(d.f, d.il + d.pl * d.np)>> \o Opt(d.jr, Bytes(d.seed))
                 ELSE <<Bytes(d.seed)>> \o Opt(d.jr, Bytes(d.seed))
P3VShare(d) == <<Elems(d.f, d.vl * d.np)>> \o Opt(d.jr, Bytes(d.seed))
P3Msg(d) == Opt(d.jr, Bytes(d.seed))
P3State(d, j) == (IF j = 0 THEN <<Elems(d.f, d.ol)>> ELSE <<Bytes(d.seed)>>) \o Opt(d.jr, Bytes(d.seed))
P3Out(d) == <<Elems(d.f, d.ol)>>

\* Poplar1: bits, seed size
Sketch(f) == [k |-> "tag", alts |-> (0 :> <<Elems(f, 2)>> @@ 1 :> <<>>)]
PopPub(bits) == <<[k |-> "cbits", bits |-> bits], Bytes(16 * bits), Elems("Field64", 2 * (bits - 1)), Elems("Field255", 2)>>
PopShare(bits, seed) == <<Bytes(16), Bytes(seed), Elems("Field64", 2 * (bits - 1)), Elems("Field255", 2)>>
PopState == <<[k |-> "tag", alts |-> (0 :> <<Sketch("Field64"), [k |-> "counted", f |-> "Field64"]>>
                                    @@ 1 :> <<Sketch("Field255"), [k |-> "counted", f |-> "Field255"]>>)]>>
PopFieldVec(leaf, n) == <<Elems(IF leaf THEN "Field255" ELSE "Field64", n)>>        \* sketch shares (n = 3 | 1), output / aggregate shares (n = #prefixes)
PopMsg(leaf, round) == IF round = 1 THEN <<Elems(IF leaf THEN "Field255" ELSE "Field64", 3)>> ELSE <<>>

\* Prio2: input length n
NP2(n) == LET RECURSIVE go(_)  go(m) == IF m >= n THEN m ELSE go(2 * m) IN go(1)
Prio2ProofLen(n) == n + 3 + NP2(n + 1)
P2Share(n, j) == IF j = 0 THEN <<Elems("FieldPrio2", Prio2ProofLen(n))>> ELSE <<Bytes(32)>>
P2State(n, j) == IF j = 0 THEN <<Elems("FieldPrio2", n)>> ELSE <<Bytes(32)>>
P2VShare == <<Elems("FieldPrio2", 3)>>
P2Out(n) == <<Elems("FieldPrio2", n)>>

\* ping-pong
Opaque32 == [k |-> "opaque", w |-> 4]
PingPongMsg == <<[k |-> "tag", alts |-> (0 :> <<Opaque32>> @@ 1 :> <<Opaque32, Opaque32>> @@ 2 :> <<Opaque32>>)]>>

\* descriptor -> grammar
Grammar(d) ==
  CASE d.ty = "u8" -> <<Bytes(1)>> [] d.ty = "u16" -> <<Bytes(2)>> [] d.ty = "u32" -> <<Bytes(4)>> [] d.ty = "u64" -> <<Bytes(8)>>
    [] d.ty = "seed" -> <<Bytes(d.n)>>
    [] d.ty = "field" -> <<Elems(d.f, 1)>>
    [] d.ty = "items" -> <<[k |-> "items", w |-> d.w, size |-> d.size]>>
    [] d.ty = "prio3_pub" -> P3Pub(d) [] d.ty = "prio3_share" -> P3Share(d, d.j) [] d.ty = "prio3_vshare" -> P3VShare(d)
    [] d.ty = "prio3_msg" -> P3Msg(d) [] d.ty = "prio3_state" -> P3State(d, d.j) [] d.ty \in {"prio3_out", "prio3_agg"} -> P3Out(d)
    [] d.ty = "prio3_cont" -> P3State(d, d.j) \o P3Msg(d)
    [] d.ty = "poplar1_pub" -> PopPub(d.bits) [] d.ty = "poplar1_share" -> PopShare(d.bits, d.seed)
    [] d.ty = "poplar1_state" -> PopState
    [] d.ty = "poplar1_fieldvec" -> PopFieldVec(d.leaf, d.n)
    [] d.ty = "poplar1_msg" -> PopMsg(d.leaf, d.round)
    [] d.ty = "prio2_share" -> P2Share(d.n, d.j) [] d.ty = "prio2_state" -> P2State(d.n, d.j)
    [] d.ty = "prio2_vshare" -> P2VShare [] d.ty \in {"prio2_out", "prio2_agg"} -> P2Out(d.n)
    [] d.ty = "pingpong_msg" -> PingPongMsg
=============================================================================
