---------------------------- MODULE Poplar1Rounds ----------------------------
(***************************************************************************)
(* The parts of the Poplar1 model that are independent of the field, shared *)
(* by the model (Poplar1.tla, checked by MC_Poplar1) and by the trace spec  *)
(* of the real code (Poplar1_Trace.tla):                                    *)
(*  - which (verifier state, verifier message) variants verify_next         *)
(*    accepts and which verifier shares may be combined;                    *)
(*  - the well-formedness of a report in terms of small integer deviations  *)
(*    from the honest one (k = 1 candidate on the input's path).            *)
(***************************************************************************)
EXTENDS Integers

Kinds == {"inner", "leaf"}
\* state = [kind, round]; message = [kind, body \in {"sketch", "done"}]   ("done" carries no field elements, so no kind)
VerifyNextOK(state, msg) ==
  \/ (state.round = 1 /\ msg.body = "sketch" /\ msg.kind = state.kind)
  \/ (state.round = 2 /\ msg.body = "done")
\* the transition an accepted pair makes
VerifyNextKind(state) == IF state.round = 1 THEN "continue" ELSE "finish"
\* combining two verifier shares: same field kind, same length, length 3 (round 1) or 1 (round 2)
CombineOK(sh0, sh1) == sh0.kind = sh1.kind /\ sh0.len = sh1.len /\ sh0.len \in {1, 3}

\* A report whose IDPF programs (y, auth*y + dz) on the input's path, whose A share is honest and whose B share is
\* off by dB, is accepted for EVERY verification randomness iff it is honest-shaped (MC_Poplar1!DevAgrees ties this
\* to Poplar1!WellFormed, and MC_Poplar1!Sound bounds the accept set of everything else by 2/P).
DevWellFormed(y, dz, dB) == y \in {0, 1} /\ dz = 0 /\ dB = 0
=============================================================================
