---------------------------- MODULE C11_Trace ----------------------------
(***************************************************************************)
(* C11, extendable-output functions: the bytes of a seed stream are a      *)
(* function of (XOF family, seed, concatenated domain-separation tag,      *)
(* concatenated binder) only.  Every recorded run -- whatever the split of *)
(* tag and binder into parts, the construction API and the sequence of     *)
(* read sizes -- must be a prefix-consistent view of that one function,    *)
(* produce exactly the requested number of bytes, and a derived seed must  *)
(* equal the first bytes of the stream.  Conversely the stream depends on  *)
(* ALL of seed, tag and binder: two runs of one family whose (seed, tag,   *)
(* binder) differ in any byte of any part never share their first 16 bytes *)
(* (for a sound XOF this fails with probability 2^-128 per pair).          *)
(***************************************************************************)
EXTENDS Integers, Sequences, TLC, Json, IOUtils
Rec == ndJsonDeserialize(IOEnv.TRACEFILE)

RECURSIVE SumSeq(_)
SumSeq(s) == IF s = <<>> THEN 0 ELSE Head(s) + SumSeq(Tail(s))
PrefixCompatible(a, b) == \A i \in 1..(IF Len(a) < Len(b) THEN Len(a) ELSE Len(b)) : a[i] = b[i]

VARIABLES l, Stream     \* Stream: the oracle table learned so far
Init == l = 1 /\ Stream = << >>
Next ==
  /\ l <= Len(Rec)
  /\ l' = l + 1
  /\ LET e == Rec[l]
         k == <<e.family, e.seed, e.dst, e.binder>>
     IN /\ Len(e.out) = (IF e.api = "into_seed" THEN e.seed_size ELSE SumSeq(e.reads))   \* exactly the bytes asked for
        /\ (k \in DOMAIN Stream => PrefixCompatible(Stream[k], e.out))                     \* one function per key
        /\ (k \notin DOMAIN Stream /\ Len(e.out) >= 16 =>                                  \* ... that separates distinct keys
              \A kk \in DOMAIN Stream : (kk[1] = e.family /\ Len(Stream[kk]) >= 16) => SubSeq(Stream[kk], 1, 16) # SubSeq(e.out, 1, 16))
        /\ Stream' = [kk \in DOMAIN Stream \cup {k} |->
                        IF kk = k /\ (k \notin DOMAIN Stream \/ Len(e.out) > Len(Stream[k])) THEN e.out ELSE Stream[kk]]
Accepted ==
  IF TLCGet("stats").diameter - 1 = Len(Rec) THEN TRUE
  ELSE PrintT(<<"UNMATCHED", TLCGet("stats").diameter, Rec[TLCGet("stats").diameter].api>>) /\ FALSE
=============================================================================
