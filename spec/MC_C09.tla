------------------------------- MODULE MC_C09 -------------------------------
(* C09: model checking of FpOps (algorithm = meaning) and generation of the     *)
(* expected-value tables replayed against the real word-level code (hook H1).   *)
EXTENDS FpOps, BigNat, TLC, Json, IOUtils, FiniteSets

Sets8 == { [name |-> "FP17",  p |-> 17,  W |-> 8, split |-> FALSE],
           [name |-> "FP193", p |-> 193, W |-> 8, split |-> FALSE],
           [name |-> "FP251", p |-> 251, W |-> 8, split |-> FALSE],
           [name |-> "FP241", p |-> 241, W |-> 8, split |-> FALSE] }
Sets16 == { [name |-> "FP12289",  p |-> 12289, W |-> 16, split |-> FALSE],
            [name |-> "FP65521",  p |-> 65521, W |-> 16, split |-> FALSE],
            [name |-> "FP61441",  p |-> 61441, W |-> 16, split |-> FALSE],
            [name |-> "FP40961",  p |-> 40961, W |-> 16, split |-> TRUE],
            [name |-> "FP61441S", p |-> 61441, W |-> 16, split |-> TRUE],
            [name |-> "FP12289S", p |-> 12289, W |-> 16, split |-> TRUE] }

Primes8 == {q \in 3..255 : \A d \in 2..15 : d >= q \/ q % d # 0}
\* model-only sets: the split-word algorithm with 4-bit half words, every odd prime below 2^8
\* Operating range of the split-word REDC: its first reduction step keeps only 2W bits of
\* z + p*w (the carry out of the top half-word is discarded), which is harmless exactly when
\* p * (p + 2^(W/2)) < 2^(2W).  TLC found the counterexample (p = 65521, W = 16: 65503 * 65473)
\* before this precondition was stated; FP128 and the verification-only split sets satisfy it.
SplitOK(p, W) == BigLt(BigMul(FromInt(p), BigAdd(FromInt(p), Pow2Big(W \div 2))), Pow2Big(2 * W))
P128 == BigAdd(BigSub(Pow2Big(128), BigMul(<<7>>, Pow2Big(66))), <<1>>)
ASSUME BigLt(BigMul(P128, BigAdd(P128, Pow2Big(64))), Pow2Big(256))       \* the deployed FP128
ASSUME \A ps \in Sets16 : ps.split => SplitOK(ps.p, ps.W)
\* vacuity guard: outside the range the algorithm really does fail (the counterexample TLC found)
ASSUME LET bad == [name |-> "FP65521S", p |-> 65521, W |-> 16, split |-> TRUE] IN
       ~SplitOK(65521, 16) /\ AMulSplit(bad, 239, 65503, 65473) # MMul(bad, 65503, 65473)
SetsModel == { [name |-> "model", p |-> q, W |-> 8, split |-> TRUE] : q \in {r \in Primes8 : SplitOK(r, 8)} }
          \cup { [name |-> "model", p |-> q, W |-> 8, split |-> FALSE] : q \in Primes8 }

Mu(ps) == ps.mu

SeqOf(S) == LET RECURSIVE go(_)  go(T) == IF T = {} THEN <<>> ELSE LET m == CHOOSE v \in T : \A u \in T : v <= u IN <<m>> \o go(T \ {m}) IN go(S)
Lattice(ps) == {v \in {0, 1, 2, 3, ps.p - 1, ps.p - 2, ps.p - 3, (ps.p - 1) \div 2, (ps.p + 1) \div 2}
                  \cup UNION {{Pow2(k) - 1, Pow2(k), Pow2(k) + 1} : k \in 1..(ps.W - 1)} : v >= 0 /\ v < ps.p}
LatticeW(ps) == Lattice(ps) \cup {v \in {ps.p, ps.p + 1, Pow2(ps.W) - 1, Pow2(ps.W) - 2} : v < Pow2(ps.W)}

Rand == IF "C09_RAND" \in DOMAIN IOEnv /\ IOEnv.C09_RAND # "" THEN JsonDeserialize(IOEnv.C09_RAND) ELSE [pairs |-> <<>>]
\* Rand.pairs : sequence of [set, x, ys]

Binary == {"add", "sub", "mul"}
Unary  == {"neg", "inv", "residue"}

VARIABLE task
\* task = [ps, op, x, ys]   binary/pow:  x op ys[i]      unary: op(ys[i]) (x unused)
\* A task with x = -1 is a "group" state: its successors are the tasks of that (set, op), so that
\* TLC's workers evaluate different groups in parallel.
Group(ps, o) == [ps |-> Derive(ps), op |-> o, x |-> -1, ys |-> <<>>]
PowExps(ps) == SeqOf(LatticeW(ps) \cup 0..20)
TasksExh(g) ==
  LET ps == g.ps  o == g.op IN
  CASE o \in Binary -> { [ps |-> ps, op |-> o, x |-> x, ys |-> [i \in 1..ps.p |-> i - 1]] : x \in 0..(ps.p - 1) }
    [] o = "pow" -> { [ps |-> ps, op |-> "pow", x |-> x, ys |-> PowExps(ps)] : x \in 0..(ps.p - 1) }
    [] o \in Unary -> { [ps |-> ps, op |-> o, x |-> 0, ys |-> [i \in 1..ps.p |-> i - 1]] }
    [] o = "montgomery" -> { [ps |-> ps, op |-> "montgomery", x |-> 0, ys |-> [i \in 1..Pow2(ps.W) |-> i - 1]] }
TasksLat(g) ==
  LET ps == g.ps  o == g.op IN
  CASE o \in Binary -> { [ps |-> ps, op |-> o, x |-> x, ys |-> SeqOf(Lattice(ps))] : x \in Lattice(ps) }
    [] o = "pow" -> { [ps |-> ps, op |-> "pow", x |-> x, ys |-> SeqOf(LatticeW(ps))] : x \in Lattice(ps) }
    [] o \in Unary -> { [ps |-> ps, op |-> o, x |-> 0, ys |-> SeqOf(Lattice(ps))] }
    [] o = "montgomery" -> { [ps |-> ps, op |-> "montgomery", x |-> 0, ys |-> SeqOf(LatticeW(ps))] }
ByName(n) == CHOOSE ps \in Sets8 \cup Sets16 : ps.name = n
TasksRand(g) ==
  LET ps == g.ps  o == g.op
      idx == {i \in 1..Len(Rand.pairs) : Rand.pairs[i].set = ps.name} IN
  IF o \in Binary \cup {"pow"}
  THEN { [ps |-> ps, op |-> o, x |-> Rand.pairs[i].x, ys |-> Rand.pairs[i].ys] : i \in idx }
  ELSE { [ps |-> ps, op |-> o, x |-> 0, ys |-> Rand.pairs[i].ys] : i \in idx }
AllOps == Binary \cup Unary \cup {"pow", "montgomery"}

InitExh   == task \in {Group(ps, o) : ps \in Sets8, o \in AllOps}
InitExhQuick == task \in {Group(ps, o) : ps \in {q \in Sets8 : q.name \in {"FP17", "FP251"}}, o \in AllOps}
InitLat   == task \in {Group(ps, o) : ps \in Sets16, o \in AllOps}
InitModel == task \in {Group(ps, "mul") : ps \in SetsModel}
InitModelQuick == task \in {Group(ps, "mul") : ps \in {s \in SetsModel : s.p \in {3, 5, 17, 97, 127, 131, 193, 239, 241, 251}}}
IsGroup == task.x = -1
Next ==
  /\ IsGroup
  /\ task' \in (CASE task.ps.name = "model" -> {[ps |-> task.ps, op |-> "mul", x |-> x, ys |-> [i \in 1..task.ps.p |-> i - 1]] : x \in 0..(task.ps.p - 1)}
                  [] task.ps.W = 8 -> TasksExh(task)
                  [] OTHER -> TasksLat(task) \cup TasksRand(task))

Meaning(t, y) ==
  CASE t.op = "add" -> MAdd(t.ps, t.x, y)
    [] t.op = "sub" -> MSub(t.ps, t.x, y)
    [] t.op = "mul" -> MMul(t.ps, t.x, y)
    [] t.op = "pow" -> MPow(t.ps, t.x, y)
    [] t.op = "neg" -> MNeg(t.ps, y)
    [] t.op = "inv" -> MInv(t.ps, y)
    [] t.op = "residue" -> MResidue(t.ps, y)
    [] t.op = "montgomery" -> MMontgomery(t.ps, y)

\* the algorithm side is evaluated where its intermediate products fit TLC integers
AlgFits(t) == t.ps.W <= 8 \/ t.ps.split \/ t.op \in {"add", "sub", "neg"}
Algorithm(t, y) ==
  LET ps == t.ps  mu == Mu(ps) IN
  CASE t.op = "add" -> AAdd(ps, t.x, y)
    [] t.op = "sub" -> ASub(ps, t.x, y)
    [] t.op = "mul" -> AMul(ps, mu, t.x, y)
    [] t.op = "pow" -> APow(ps, mu, t.x, y)
    [] t.op = "neg" -> ANeg(ps, y)
    [] t.op = "inv" -> APow(ps, mu, y, ps.p - 2)
    [] t.op = "residue" -> AModp(ps, AMul(ps, mu, y, 1))
    [] t.op = "montgomery" -> AModp(ps, AMul(ps, mu, y, MulModN(RmodP(ps), RmodP(ps), ps.p)))

\* C09 on the model: the algorithms compute the meaning, fully reduced
AlgorithmIsMeaning ==
  ~IsGroup /\ AlgFits(task) => \A i \in 1..Len(task.ys) :
      LET a == Algorithm(task, task.ys[i]) IN a = Meaning(task, task.ys[i]) /\ a < task.ps.p

\* field axioms on the meaning itself (guards the oracle): mul is the Montgomery image of integer
\* multiplication, inv is an inverse, results reduced
MeaningSane ==
  LET ps == task.ps IN
  ~IsGroup =>
  \A i \in 1..Len(task.ys) :
    LET y == task.ys[i]  m == Meaning(task, y) IN
    /\ m \in 0..(ps.p - 1)
    /\ task.op = "mul" => FromMont(ps, m) = MulModN(FromMont(ps, task.x), FromMont(ps, y), ps.p)
    /\ task.op = "inv" /\ y # 0 => MMul(ps, m, y) = RmodP(ps)
    /\ task.op = "montgomery" => FromMont(ps, m) = y % ps.p

Emit == PrintT(<<"REPLAY", ToJson([set |-> task.ps.name, op |-> task.op, x |-> task.x, ys |-> task.ys,
                                   zs |-> [i \in 1..Len(task.ys) |-> Meaning(task, task.ys[i])]])>>)
EmitInv == ~IsGroup => Emit

-----------------------------------------------------------------------------
(* constants reported by the implementation (harness `c09 params`) are checked against their
   defining equations *)
Params == IF "C09_PARAMS" \in DOMAIN IOEnv /\ IOEnv.C09_PARAMS # "" THEN ndJsonDeserialize(IOEnv.C09_PARAMS) ELSE <<>>
ParamsOK ==
  (IsGroup /\ task.op = "add") =>
    \A i \in 1..Len(Params) :
      LET c == Params[i] IN
      c.set = task.ps.name =>
        (IF ConstantsOK(task.ps, c) THEN TRUE ELSE PrintT(<<"BADPARAMS", c.set>>) /\ FALSE)
=============================================================================
