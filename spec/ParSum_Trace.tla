---------------------------- MODULE ParSum_Trace ----------------------------
(***************************************************************************)
(* C14 binding.  "run" events: one ParallelSumMultithreaded::eval_poly     *)
(* call observed through hook H5 -- which fold states were created and     *)
(* which chunk each folded, in order -- together with the output of the    *)
(* multithreaded gadget and of the serial gadget on the same input.  The   *)
(* observed schedule must be a behaviour of the ParSum contract (every     *)
(* chunk folded exactly once, into a state that was created before, each   *)
(* state folding in ascending chunk order) and the outputs must be         *)
(* byte-identical.  "e2e" events: serial and multithreaded Prio3 variants   *)
(* under identical randomness -- all messages and the result identical.    *)
(***************************************************************************)
EXTENDS Integers, Sequences, SequencesExt, FiniteSets, TLC, Json, IOUtils
Rec == ndJsonDeserialize(IOEnv.TRACEFILE)

\* log: sequence of <<state id, chunk>> with chunk = -1 for "state created".
\* The observed schedule is a behaviour of the fold contract iff, reading the log once: every state is created once (fresh
\* identifier) before anything is folded into it, every fold names a chunk 0..n-1 not folded before, chunks arrive in
\* ascending order within a state, and at the end every chunk has been folded exactly once.
ScheduleOK(log, n) ==
  LET Step(acc, ent) ==
        LET id == ent[1]  c == ent[2] IN
        IF c = -1
        THEN [ok |-> acc.ok /\ id \notin DOMAIN acc.last, last |-> acc.last @@ (id :> -1), seen |-> acc.seen]
        ELSE [ok |-> /\ acc.ok /\ id \in DOMAIN acc.last /\ c \in 0..(n - 1) /\ c \notin acc.seen
                     /\ (id \in DOMAIN acc.last => acc.last[id] < c),
              last |-> IF id \in DOMAIN acc.last THEN [acc.last EXCEPT ![id] = c] ELSE acc.last,
              seen |-> acc.seen \cup {c}]
      r == FoldLeft(Step, [ok |-> TRUE, last |-> << >>, seen |-> {}], log)
  IN r.ok /\ r.seen = 0..(n - 1)

EventOK(e) ==
  CASE e.ev = "run" -> ScheduleOK(e.log, e.chunks) /\ e.out_mt = e.out_serial /\ e.ok_mt /\ e.ok_serial
    [] e.ev = "e2e" -> /\ e.ok        \* both variants ran to completion (an honest report over Field128 is accepted)
                       /\ e.pub_mt = e.pub_serial /\ e.shares_mt = e.shares_serial /\ e.vshares_mt = e.vshares_serial
                       /\ e.outs_mt = e.outs_serial /\ e.result_mt = e.result_serial
    [] OTHER -> FALSE
VARIABLE l
Init == l = 1
Next == l <= Len(Rec) /\ EventOK(Rec[l]) /\ l' = l + 1
Accepted ==
  IF TLCGet("stats").diameter - 1 = Len(Rec) THEN TRUE
  ELSE PrintT(<<"UNMATCHED", TLCGet("stats").diameter, Rec[TLCGet("stats").diameter].ev>>) /\ FALSE
=============================================================================
