---------------------------- MODULE ParSum_Trace ----------------------------
(***************************************************************************)
(* C14 binding.  "run" events: one ParallelSumMultithreaded::eval_poly     *)
(* call observed through hook H5 -- which fold states were created and     *)
(* which chunk each folded, in order -- together with the output of the    *)
(* multithreaded gadget and of the serial gadget on the same input.  The   *)
(* observed schedule must be a behaviour of the ParSum contract (every     *)
(* chunk folded exactly once, into a state that was created before, each   *)
(* state folding in ascending chunk order) and the outputs must be         *)
(* byte-identical.  "e2e" events: serial and multithreaded Prio3 variants   *)
(* under identical randomness -- all messages and the result identical.    *)
(***************************************************************************)
EXTENDS Integers, Sequences, FiniteSets, TLC, Json, IOUtils
Rec == ndJsonDeserialize(IOEnv.TRACEFILE)

\* log: sequence of <<state id, chunk>> with chunk = -1 for "state created"
Created(log, k) == {log[i][1] : i \in {j \in 1..k : log[j][2] = -1}}
ScheduleOK(log, n) ==
  /\ \A k \in 1..Len(log) : log[k][2] # -1 => log[k][1] \in Created(log, k - 1)          \* folds go into states created before
  /\ \A c \in 0..(n - 1) : Cardinality({k \in 1..Len(log) : log[k][2] = c}) = 1            \* every chunk exactly once
  /\ \A k \in 1..Len(log) : log[k][2] = -1 \/ log[k][2] \in 0..(n - 1)
  /\ \A a, b \in 1..Len(log) : (a < b /\ log[a][1] = log[b][1] /\ log[a][2] # -1 /\ log[b][2] # -1) => log[a][2] < log[b][2]   \* in order within a state
  /\ Cardinality({log[k][1] : k \in {j \in 1..Len(log) : log[j][2] = -1}}) = Cardinality({j \in 1..Len(log) : log[j][2] = -1})  \* fresh ids

EventOK(e) ==
  CASE e.ev = "run" -> ScheduleOK(e.log, e.chunks) /\ e.out_mt = e.out_serial /\ e.ok_mt /\ e.ok_serial
    [] e.ev = "e2e" -> /\ e.ok        \* both variants ran to completion (an honest report over Field128 is accepted)
                       /\ e.pub_mt = e.pub_serial /\ e.shares_mt = e.shares_serial /\ e.vshares_mt = e.vshares_serial
                       /\ e.outs_mt = e.outs_serial /\ e.result_mt = e.result_serial
    [] OTHER -> FALSE
VARIABLE l
Init == l = 1
Next == l <= Len(Rec) /\ EventOK(Rec[l]) /\ l' = l + 1
Accepted ==
  IF TLCGet("stats").diameter - 1 = Len(Rec) THEN TRUE
  ELSE PrintT(<<"UNMATCHED", TLCGet("stats").diameter, Rec[TLCGet("stats").diameter].ev>>) /\ FALSE
=============================================================================
