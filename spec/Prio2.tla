---------------------------- MODULE Prio2 ----------------------------
(***************************************************************************)
(* Prio v2 (the original Prio proof of "every entry is 0 or 1") over GF(P).*)
(* dim = input length, n = NextPow2(dim + 1).                              *)
(* f, g: polynomials of degree < n with f(w^0) = f0, g(w^0) = g0,          *)
(*   f(w^i) = x_i, g(w^i) = x_i - 1 (i = 1..dim), 0 on the remaining nodes *)
(*   (w the principal n-th root); h = f * g.                               *)
(* Proof vector: x ++ <<f0, g0, h(1)>> ++ h at the odd powers of the       *)
(* principal 2n-th root.  The verifiers hold additive shares of it,        *)
(* evaluate f, g, h at a point r that is not a 2n-th root of unity and     *)
(* accept iff f(r) * g(r) = h(r) on the sums.                              *)
(***************************************************************************)
EXTENDS GF

N(dim) == NextPow2(dim + 1)
ProofLength(dim) == dim + 3 + N(dim)

FPoints(dim, f0, x) == [i \in 1..N(dim) |-> IF i = 1 THEN f0 ELSE IF i - 1 <= dim THEN x[i - 1] ELSE 0]
GPoints(dim, g0, x, minus) == [i \in 1..N(dim) |-> IF i = 1 THEN g0 ELSE IF i - 1 <= dim THEN Sub(x[i - 1], minus) ELSE 0]

\* the prover's vector for data x and first-node values f0, g0
Proof(dim, x, f0, g0) ==
  LET n == N(dim)  fp == FPoints(dim, f0, x)  gp == GPoints(dim, g0, x, 1)  nd2 == Nodes(2 * n)
      hodd == [j \in 1..n |-> Mul(LagEvalRoots(fp, nd2[2 * j]), LagEvalRoots(gp, nd2[2 * j]))]     \* odd powers: indices 2j (1-based)
  IN x \o <<f0, g0, Mul(f0, g0)>> \o hodd

\* a verifier's message (f(r), g(r), h(r)) from its share `sh` of the proof vector
VerMsg(dim, r, sh, first) ==
  LET n == N(dim)
      x == SubSeq(sh, 1, dim)  f0 == sh[dim + 1]  g0 == sh[dim + 2]  h0 == sh[dim + 3]
      hodd == SubSeq(sh, dim + 4, dim + 3 + n)
      fp == FPoints(dim, f0, x)
      gp == GPoints(dim, g0, x, IF first THEN 1 ELSE 0)      \* the constant -1 is contributed by one verifier only
      hp == [k \in 1..(2 * n) |-> IF k = 1 THEN h0 ELSE IF k % 2 = 0 THEN hodd[k \div 2] ELSE 0]    \* even powers (other than 1) are zero for valid data
  IN <<LagEvalRoots(fp, r), LagEvalRoots(gp, r), LagEvalRoots(hp, r)>>
Valid(v1, v2) == Mul(Add(v1[1], v2[1]), Add(v1[2], v2[2])) = Add(v1[3], v2[3])
IsRoot(dim, r) == Pow(r, 2 * N(dim)) = 1

\* first element of a stream (of field elements) that is not a 2n-th root of unity; 0 = none
RECURSIVE ChooseEvalAt(_, _)
ChooseEvalAt(dim, stream) == IF stream = <<>> THEN -1 ELSE IF IsRoot(dim, Head(stream)) THEN ChooseEvalAt(dim, Tail(stream)) ELSE Head(stream)
=============================================================================
