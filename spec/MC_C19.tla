---------------------------- MODULE MC_C19 ----------------------------
(* C19 on the model: 0/1 vectors are accepted for every non-root query point, first-node values  *)
(* and sharing; any other vector, and any single-element alteration of a share, is accepted for   *)
(* at most 2n query points.                                                                       *)
EXTENDS Prio2, TLC
CONSTANT MaxDim
VARIABLE st
Vecs(dim) == IF dim <= 3 THEN [1..dim -> {0, 1, 2, P - 1}] ELSE {[i \in 1..dim |-> IF i \in S THEN v ELSE (i % 2)] : S \in {{}, {1}, {dim}, {2, dim - 1}}, v \in {0, 2, P - 1}}
Init == st \in {[dim |-> d, x |-> x, f0 |-> a, g0 |-> b] : d \in 1..MaxDim, x \in UNION {Vecs(dd) : dd \in 1..MaxDim}, a \in {0, 3}, b \in {0, 1, 5}}
        /\ Len(st.x) = st.dim
Next == UNCHANGED st
IsBinary(x) == \A i \in 1..Len(x) : x[i] \in {0, 1}
Share1(v) == [i \in 1..Len(v) |-> (7 * i + 3) % P]
Accepts(dim, pf, r) ==
  LET s1 == Share1(pf)  s2 == VecSub(pf, s1) IN Valid(VerMsg(dim, r, s1, TRUE), VerMsg(dim, r, s2, FALSE))
NonRoots(dim) == {r \in F : ~IsRoot(dim, r)}
AcceptSet(dim, pf) == {r \in NonRoots(dim) : Accepts(dim, pf, r)}
Complete == IsBinary(st.x) => AcceptSet(st.dim, Proof(st.dim, st.x, st.f0, st.g0)) = NonRoots(st.dim)
Sound == ~IsBinary(st.x) => Cardinality(AcceptSet(st.dim, Proof(st.dim, st.x, st.f0, st.g0))) <= 2 * N(st.dim)
\* altering any single element of the proof vector of a valid input
\* Altering one element of the proof vector of a valid input: rejected except for at most 2n query
\* points -- or (exceptions found by TLC and kept explicit) the first-node value of f or g is zero,
\* in which case some alterations go unnoticed but the data part is still a 0/1 vector.  f0 and g0
\* are uniform in the real client, so this happens with probability about 2/P per report.
Tamper == IsBinary(st.x) =>
   LET pf == Proof(st.dim, st.x, st.f0, st.g0) IN
   \A i \in 1..Len(pf) :
      LET pf2 == [pf EXCEPT ![i] = Add(@, 1)] IN
      \/ Cardinality(AcceptSet(st.dim, pf2)) <= 2 * N(st.dim)
      \/ ((st.f0 = 0 \/ st.g0 = 0) /\ IsBinary(SubSeq(pf2, 1, st.dim)))
\* what is accepted for more than 2n query points always carries 0/1 data (the safety the aggregate relies on)
Safety == LET pf == Proof(st.dim, st.x, st.f0, st.g0) IN
          Cardinality(AcceptSet(st.dim, pf)) > 2 * N(st.dim) => IsBinary(st.x)
ProofLen == Len(Proof(st.dim, st.x, st.f0, st.g0)) = ProofLength(st.dim)
=============================================================================
