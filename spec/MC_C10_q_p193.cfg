CONSTANTS P = 193 GEN = 125 LOGN = 6 MaxLog = 4 Basis = "all"
INIT Init
NEXT Next
INVARIANT DefsSane
INVARIANT EmitInv
CHECK_DEADLOCK FALSE
