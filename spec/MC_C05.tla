---------------------------- MODULE MC_C05 ----------------------------
(* C05: model checking of the FLP (completeness, share-linearity, exact lengths, refusal of   *)
(* wire-domain query points) and generation of the behaviours replayed against the real       *)
(* Flp::prove / query / decide / valid / truncate / encode_measurement on the tiny fields.    *)
EXTENDS Flp, Json, IOUtils
CONSTANT Tier      \* "quick" | "thorough": size of the randomness families on the larger fields

CircuitsSmall ==
  { [kind |-> "Count"], [kind |-> "HigherDegree"], [kind |-> "Ternary", len |-> 2], [kind |-> "Ternary", len |-> 3] }
  \cup { [kind |-> "Sum", max |-> m] : m \in {1, 2, 3, 4, 6} }
  \cup { [kind |-> "SumVec", max |-> 1, len |-> 2, chunk |-> 1],
         [kind |-> "SumVec", max |-> 3, len |-> 2, chunk |-> 3],
         [kind |-> "SumVec", max |-> 2, len |-> 2, chunk |-> 2],
         [kind |-> "SumVec", max |-> 1, len |-> 3, chunk |-> 4] }
  \cup { [kind |-> "Histogram", len |-> 3, chunk |-> 2], [kind |-> "Histogram", len |-> 4, chunk |-> 2],
         [kind |-> "Histogram", len |-> 3, chunk |-> 3], [kind |-> "Histogram", len |-> 2, chunk |-> 1] }
  \cup { [kind |-> "Multihot", len |-> 3, maxw |-> 1, chunk |-> 2], [kind |-> "Multihot", len |-> 3, maxw |-> 2, chunk |-> 2],
         [kind |-> "Multihot", len |-> 2, maxw |-> 2, chunk |-> 3] }
  \cup { [kind |-> "L1BoundSum", max |-> 3, len |-> 2, chunk |-> 2], [kind |-> "L1BoundSum", max |-> 3, len |-> 2, chunk |-> 4],
         [kind |-> "L1BoundSum", max |-> 1, len |-> 2, chunk |-> 2], [kind |-> "L1BoundSum", max |-> 2, len |-> 1, chunk |-> 3] }
  \* every relation between chunk length and input: chunk 1, chunk larger than the whole input, chunk smaller than one digit group
  \cup { [kind |-> "Histogram", len |-> 2, chunk |-> 5], [kind |-> "Multihot", len |-> 2, maxw |-> 1, chunk |-> 1],
         [kind |-> "Multihot", len |-> 2, maxw |-> 1, chunk |-> 7], [kind |-> "L1BoundSum", max |-> 3, len |-> 1, chunk |-> 1],
         [kind |-> "L1BoundSum", max |-> 1, len |-> 3, chunk |-> 5], [kind |-> "SumVec", max |-> 3, len |-> 1, chunk |-> 1] }
\* circuits for the larger fields (P >= 193): longer inputs, more gadget calls
CircuitsMedium ==
  { [kind |-> "Count"], [kind |-> "HigherDegree"], [kind |-> "Ternary", len |-> 5], [kind |-> "Sum", max |-> 100], [kind |-> "Sum", max |-> 127],
    [kind |-> "SumVec", max |-> 5, len |-> 3, chunk |-> 4], [kind |-> "Histogram", len |-> 10, chunk |-> 3],
    [kind |-> "Histogram", len |-> 7, chunk |-> 7],
    [kind |-> "Multihot", len |-> 6, maxw |-> 3, chunk |-> 3], [kind |-> "L1BoundSum", max |-> 6, len |-> 3, chunk |-> 5] }
\* long inputs (>= 128 field elements) for the Prio3 traces: block-wise processing paths
CircuitsBig ==
  { [kind |-> "Histogram", len |-> 130, chunk |-> 12], [kind |-> "SumVec", max |-> 1, len |-> 140, chunk |-> 13],
    [kind |-> "Multihot", len |-> 126, maxw |-> 3, chunk |-> 10], [kind |-> "L1BoundSum", max |-> 3, len |-> 64, chunk |-> 11] }
\* very long inputs (several 256-element blocks) for the Prio3 traces
CircuitsHuge ==
  { [kind |-> "Histogram", len |-> 530, chunk |-> 90], [kind |-> "SumVec", max |-> 1, len |-> 600, chunk |-> 100] }
Circuits == IF P = 17 THEN CircuitsSmall ELSE CircuitsMedium

SeqsLE(len, max, bound) == {m \in [1..len -> 0..max] : SeqSumInt(m) <= bound}
\* measurements are carried as sequences (scalars as 1-tuples) so that all states have one shape
Scalar(c) == c.kind \in {"Count", "HigherDegree", "Sum", "Histogram"}
EncodeM(c, ms) == Encode(c, IF Scalar(c) THEN ms[1] ELSE ms)
PlainM(c, ms) == Plain(c, IF Scalar(c) THEN ms[1] ELSE ms)
Wrap(S) == {<<x>> : x \in S}
Meas(c) ==
  CASE c.kind = "Count" -> Wrap({0, 1})
    [] c.kind = "HigherDegree" -> Wrap({0, 1, 2})
    [] c.kind = "Ternary" -> IF c.len <= 3 THEN [1..c.len -> 0..2] ELSE {[i \in 1..c.len |-> (a * i + b) % 3] : a \in {0, 1, 2}, b \in {0, 1}}
    [] c.kind = "Sum" -> Wrap(IF c.max <= 8 THEN 0..c.max ELSE {0, 1, c.max \div 2, Pow2(Bits(c.max) - 1) - 1, Pow2(Bits(c.max) - 1), c.max - 1, c.max})
    [] c.kind = "SumVec" -> IF c.len * Bits(c.max) <= 4 THEN [1..c.len -> 0..c.max]
                            ELSE {[i \in 1..c.len |-> (a * i + b) % (c.max + 1)] : a \in {0, 1, 3}, b \in {0, c.max}}
    [] c.kind = "Histogram" -> Wrap(IF c.len <= 200 THEN 0..(c.len - 1) ELSE {0, 1, 255, 256, 257, 511, 512, c.len - 1})
    [] c.kind = "Multihot" -> IF c.len <= 3 THEN SeqsLE(c.len, 1, c.maxw)
                              ELSE {[i \in 1..c.len |-> IF i \in S THEN 1 ELSE 0] : S \in {{}, {1}, {c.len}, {2, 3}, {1, 2, c.len}}}
    [] c.kind = "L1BoundSum" -> IF c.len <= 2 THEN SeqsLE(c.len, c.max, c.max)
                                ELSE {[i \in 1..c.len |-> IF i = k THEN v ELSE 0] : k \in 1..c.len, v \in {0, 1, c.max}}
                                     \cup {[i \in 1..c.len |-> IF i <= 2 THEN c.max \div 2 ELSE 0]}
ValidEncodings(c) == {EncodeM(c, m) : m \in Meas(c)}
Mutations(e) == UNION {{[e EXCEPT ![i] = v] : v \in {2, P - 1, IF e[i] \in {0, 1} THEN 1 - e[i] ELSE 0}} : i \in {1, Len(e), (Len(e) + 1) \div 2}}
Inputs(c) == LET V == ValidEncodings(c)
                 some == {CHOOSE e \in V : TRUE, CHOOSE e \in V : \A d \in V : SumSeq(e) >= SumSeq(d)}
             IN V \cup UNION {Mutations(e) : e \in some}

\* small families of randomness vectors: constant and affine patterns
AB == {<<0, 0>>, <<0, 1>>, <<1, 1>>, <<3, 5>>, <<0, P - 1>>}
Pat(n, ab) == [i \in 1..n |-> (ab[1] * i + ab[2]) % P]
Vecs(n, S) == {Pat(n, ab) : ab \in S}
QueryPoints(c) == {0, 1, 2, 5, P - 1, RootN(WireLen(c)), Mul(RootN(WireLen(c)), RootN(WireLen(c))), 7}

VARIABLE st
Group(c, inp, ns) == [ph |-> "group", c |-> c, inp |-> inp, ns |-> ns]
Small == Tier = "quick" /\ P # 17
Init == st \in UNION {{Group(c, inp, ns) : inp \in Inputs(c), ns \in IF Small THEN {1, 3} ELSE {1, 2, 3, 8}} : c \in Circuits}
InitExhaustive == st \in {Group(c, <<x>>, 1) : c \in {[kind |-> "Count"], [kind |-> "HigherDegree"], [kind |-> "Sum", max |-> 1]}, x \in F}
InitEnc == st \in UNION {{[ph |-> "enc", c |-> c, m |-> m] : m \in Meas(c)} : c \in Circuits}

Shares(v, ns, k) ==   \* additive sharing of v into ns shares; helper shares follow pattern k
  LET n == Len(v)
      helper(j) == Pat(n, <<(j + k) % P, (2 * j + 3 * k + 1) % P>>)
      hs == [j \in 1..(ns - 1) |-> helper(j)]
  IN <<VecSub(v, VecSum(hs, n))>> \o hs

\* argument-length domain of the three operations: defined exactly at the declared lengths
ProveDefined(c, li, lp, lj) == li = InputLen(c) /\ lp = ProveRandLen(c) /\ lj = JointRandLen(c)
QueryDefined(c, li, lpf, lq, lj) == li = InputLen(c) /\ lpf = ProofLen(c) /\ lq = QueryRandLen(c) /\ lj = JointRandLen(c)
DecideDefined(c, lv) == lv = VerifierLen(c)
Deltas == {-1, 0, 1}
Far(x) == {0, 1, x \div 2, 2 * x, x + 7}
Probes(c) ==
  LET nat(x) == IF x < 0 THEN 0 ELSE x IN
  {[op |-> "prove", lens |-> <<nat(InputLen(c) + a), nat(ProveRandLen(c) + b), nat(JointRandLen(c) + d)>>,
    ok |-> ProveDefined(c, nat(InputLen(c) + a), nat(ProveRandLen(c) + b), nat(JointRandLen(c) + d))] : a \in Deltas, b \in Deltas, d \in Deltas}
  \cup {[op |-> "query", lens |-> <<nat(InputLen(c) + a), nat(ProofLen(c) + b), nat(QueryRandLen(c) + d), nat(JointRandLen(c) + e)>>,
    ok |-> QueryDefined(c, nat(InputLen(c) + a), nat(ProofLen(c) + b), nat(QueryRandLen(c) + d), nat(JointRandLen(c) + e))] : a \in Deltas, b \in Deltas, d \in Deltas, e \in Deltas}
  \cup {[op |-> "decide", lens |-> <<nat(VerifierLen(c) + a)>>, ok |-> DecideDefined(c, nat(VerifierLen(c) + a))] : a \in {-1, 0, 1, 2}}
  \* one argument far from its declared length (empty, a single element, half, double, seven more), the others as declared
  \cup {[op |-> "prove", lens |-> l, ok |-> ProveDefined(c, l[1], l[2], l[3])] :
          l \in UNION {{[<<InputLen(c), ProveRandLen(c), JointRandLen(c)>> EXCEPT ![k] = v] : v \in Far(<<InputLen(c), ProveRandLen(c), JointRandLen(c)>>[k])} : k \in 1..3}}
  \cup {[op |-> "query", lens |-> l, ok |-> QueryDefined(c, l[1], l[2], l[3], l[4])] :
          l \in UNION {{[<<InputLen(c), ProofLen(c), QueryRandLen(c), JointRandLen(c)>> EXCEPT ![k] = v] : v \in Far(<<InputLen(c), ProofLen(c), QueryRandLen(c), JointRandLen(c)>>[k])} : k \in 1..4}}
  \cup {[op |-> "decide", lens |-> <<v>>, ok |-> DecideDefined(c, v)] : v \in Far(VerifierLen(c))}
InitEncBig == st \in UNION {{[ph |-> "enc", c |-> c, m |-> m] : m \in Meas(c)} : c \in CircuitsBig}
InitEncHuge == st \in UNION {{[ph |-> "enc", c |-> c, m |-> m] : m \in Meas(c)} : c \in CircuitsHuge}
InitProbe == st \in {[ph |-> "probe", c |-> c] : c \in Circuits}

\* a completed run: everything the FLP computes, evaluated once and stored in the state
Run(c, inp, ns, pr, jr, qr) ==
  LET proof == Prove(c, inp, pr, jr)
      root == IsWireRoot(c, qr[Len(qr)])
      ish == Shares(inp, ns, 1)
      psh == Shares(proof, ns, 2)
      vsh == IF root THEN <<>> ELSE [k \in 1..ns |-> Query(c, ish[k], psh[k], qr, jr, ns)]
      whole == IF root THEN <<>> ELSE Query(c, inp, proof, qr, jr, 1)
  IN [ph |-> "run", c |-> c, inp |-> inp, ns |-> ns, pr |-> pr, jr |-> jr, qr |-> qr,
      proof |-> proof, root |-> root, ishares |-> ish, pshares |-> psh, vshares |-> vsh, whole |-> whole]

Next ==
  /\ st.ph = "group"
  /\ \E pr \in Vecs(ProveRandLen(st.c), IF Small THEN {<<3, 5>>} ELSE {<<0, 1>>, <<3, 5>>}),
        jr \in Vecs(JointRandLen(st.c), IF Small THEN {<<1, 6>>} ELSE {<<0, 3>>, <<1, 6>>}),
        qv \in Vecs(QueryRandLen(st.c) - 1, IF Small THEN {<<2, 3>>} ELSE {<<0, 1>>, <<2, 3>>}),
        r \in IF Small THEN {0, 5, P - 1, RootN(WireLen(st.c))} ELSE QueryPoints(st.c) :
       st' = Run(st.c, st.inp, st.ns, pr, jr, qv \o <<r>>)
NextExhaustive ==
  /\ st.ph = "group"
  /\ \E pr \in [1..ProveRandLen(st.c) -> F], qv \in [1..(QueryRandLen(st.c) - 1) -> {1, 5}], r \in F :
       st' = Run(st.c, st.inp, st.ns, pr, <<>>, qv \o <<r>>)

\* ---- C05 on the model ----
IsRun == st.ph = "run"
Lengths == IsRun => /\ Len(st.proof) = ProofLen(st.c)
                    /\ ~st.root => Len(st.whole) = VerifierLen(st.c) /\ \A k \in 1..st.ns : Len(st.vshares[k]) = VerifierLen(st.c)
                    /\ Len(st.inp) = InputLen(st.c) /\ Len(st.pr) = ProveRandLen(st.c)
                    /\ Len(st.jr) = JointRandLen(st.c) /\ Len(st.qr) = QueryRandLen(st.c)
Completeness == (IsRun /\ ValidInput(st.c, st.inp) /\ ~st.root) => Decide(st.c, st.whole)
ValidAgrees == (IsRun /\ ValidInput(st.c, st.inp)) => \A i \in 1..EvalOutLen(st.c) : Valid(st.c, st.inp, st.jr, 1)[i] = 0
Linearity == (IsRun /\ ~st.root) => VecSum(st.vshares, VerifierLen(st.c)) = st.whole
\* the barycentric shortcut used for wire polynomials equals the definition
LagEvalRootsAgrees == (IsRun /\ ~st.root) =>
   LET g == Gadget(st.c)  w == Wires(st.c, st.proof, CallInputs(st.c, st.inp, st.jr, 1))  r == st.qr[Len(st.qr)] IN
   \A i \in 1..g.arity : LagEvalRoots(w[i], r) = LagEval(Nodes(WireLen(st.c)), w[i], r)
                          /\ LagEvalRoots(w[i], Nodes(WireLen(st.c))[1 + (i % WireLen(st.c))]) = w[i][1 + (i % WireLen(st.c))]
\* an honest proof always passes the gadget test; what decides is the circuit output
HonestProofGadgetTest == (IsRun /\ ~st.root) =>
   LET v == st.whole  g == Gadget(st.c) IN GEval(st.c, SubSeq(v, 2, 1 + g.arity)) = v[2 + g.arity]
\* Encode yields valid inputs whose truncation is the plain contribution (mod P)
EncodeOK == st.ph = "enc" =>
   LET e == EncodeM(st.c, st.m) IN
   /\ Len(e) = InputLen(st.c) /\ ValidInput(st.c, e)
   /\ Truncate(st.c, e) = [i \in 1..OutputLen(st.c) |-> PlainM(st.c, st.m)[i] % P]

Emit ==
  IF st.ph = "run" THEN
    LET s == st IN
    PrintT(<<"REPLAY", ToJson([t |-> "run", p |-> P, c |-> s.c, inp |-> s.inp, pr |-> s.pr, jr |-> s.jr, qr |-> s.qr, ns |-> s.ns,
         valid |-> ValidInput(s.c, s.inp), validout |-> Valid(s.c, s.inp, s.jr, 1), trunc |-> Truncate(s.c, s.inp),
         proof |-> s.proof, root |-> s.root, ishares |-> s.ishares, pshares |-> s.pshares, vshares |-> s.vshares,
         decide |-> IF s.root THEN FALSE ELSE Decide(s.c, s.whole),
         lens |-> [input |-> InputLen(s.c), proof |-> ProofLen(s.c), verifier |-> VerifierLen(s.c), prove_rand |-> ProveRandLen(s.c),
                   joint_rand |-> JointRandLen(s.c), query_rand |-> QueryRandLen(s.c), output |-> OutputLen(s.c), eval_out |-> EvalOutLen(s.c)]])>>)
  ELSE IF st.ph = "enc" THEN
    PrintT(<<"REPLAY", ToJson([t |-> "enc", p |-> P, c |-> st.c, m |-> st.m, enc |-> EncodeM(st.c, st.m)])>>)
  ELSE IF st.ph = "probe" THEN
    PrintT(<<"REPLAY", ToJson([t |-> "probe", p |-> P, c |-> st.c, probes |-> Probes(st.c)])>>)
  ELSE TRUE
EmitInv == Emit
=============================================================================
