CONSTANTS P = 17 GEN = 3 LOGN = 4 K = 2
INIT Init
NEXT Next
INVARIANT Complete
INVARIANT Sound
INVARIANT ClosedForm
INVARIANT Rounds
INVARIANT DevAgrees
CHECK_DEADLOCK FALSE
