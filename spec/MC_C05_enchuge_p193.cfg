CONSTANTS P = 193 GEN = 125 LOGN = 6 Tier = "thorough"
INIT InitEncHuge
NEXT Next
INVARIANT EncodeOK
INVARIANT EmitInv
CHECK_DEADLOCK FALSE
