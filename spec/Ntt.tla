---------------------------- MODULE Ntt ----------------------------
(***************************************************************************)
(* Textbook definitions of the transforms and Lagrange-basis routines of   *)
(* draft-irtf-cfrg-vdaf-18 section 6.1 -- by direct evaluation and         *)
(* interpolation, with no butterflies, bit reversal or buffers.            *)
(***************************************************************************)
EXTENDS GF, TLC

IsPow2(n) == n >= 1 /\ NextPow2(n) = n
Coef(v, j) == IF j >= 1 /\ j <= Len(v) THEN v[j] ELSE 0

\* forward transform: the polynomial with coefficients inp (truncated / zero-padded to `size`)
\* evaluated at s * w^i, i = 0..size-1, w the principal size-th root, s = 1 or the principal
\* (2*size)-th root ("set_s")
NttDef(inp, size, sets) ==
  LET w == RootN(size)
      s == IF sets THEN RootN(2 * size) ELSE 1
      cs == [j \in 1..size |-> Coef(inp, j)]
  IN [i \in 1..size |-> Horner(cs, Mul(s, Pow(w, i - 1)))]

\* inverse transform: coefficients of the unique polynomial of degree < size with the given values
\* at the powers of w:  c_j = (1/size) * sum_i v_i * w^(-i*j)
NttInvDef(vals, size) ==
  LET w == RootN(size)
      winv == Inv(w)
      vs == [i \in 1..size |-> Coef(vals, i)]
      ninv == Inv(size % P)
  IN [j \in 1..size |-> Mul(ninv, SumSeq([i \in 1..size |-> Mul(vs[i], Pow(winv, (i - 1) * (j - 1)))]))]

\* Lagrange-basis evaluation at an arbitrary point (nodes = powers of the principal n-th root)
LagrangeEval(poly, x) == LagEval(Nodes(Len(poly)), poly, x)
\* the first num values determine a polynomial of degree < num; its values on all n nodes
ExtendDef(values, num, n) ==
  LET nd == Nodes(n)  xs == SubSeq(nd, 1, num)  ys == SubSeq(values, 1, num) IN
  [k \in 1..n |-> IF k <= num THEN values[k] ELSE LagEval(xs, ys, nd[k])]
\* n values on the n-th roots -> 2n values on the 2n-th roots of the same polynomial
DoubleDef(evals) ==
  LET n == Len(evals)  nd == Nodes(n)  nd2 == Nodes(2 * n) IN
  [k \in 1..(2 * n) |-> LagEval(nd, evals, nd2[k])]
MulLagrangeDef(p, q) == LET dp == DoubleDef(p)  dq == DoubleDef(q) IN [k \in 1..Len(dp) |-> Mul(dp[k], dq[k])]
\* coefficients (low to high) of prod_{i in start..end-1} (x - i)
RECURSIVE RangeCheckDef(_, _)
PolyMulMono(p, q) == [k \in 1..(Len(p) + Len(q) - 1) |->
                        SumSeq([i \in 1..Len(p) |-> IF k + 1 - i >= 1 /\ k + 1 - i <= Len(q) THEN Mul(p[i], q[k + 1 - i]) ELSE 0])]
RangeCheckDef(start, end) == IF start >= end THEN <<1>> ELSE PolyMulMono(RangeCheckDef(start, end - 1), <<Neg((end - 1) % P), 1>>)

\* size / capacity domain of the transforms (MAXLOG = 20 in the library)
MAXLOG == 20
NttVerdict(outlen, size, sets) ==
  IF size > outlen THEN "OutputTooSmall"
  ELSE IF (sets /\ size > Pow2(MAXLOG - 1)) \/ size > Pow2(MAXLOG) THEN "SizeTooLarge"
  ELSE IF ~IsPow2(size) THEN "SizeInvalid"
  ELSE "Ok"
DoubleVerdict(outlen, n) == IF ~IsPow2(n) \/ outlen # 2 * n THEN "SizeInvalid" ELSE IF n > Pow2(MAXLOG - 1) THEN "SizeTooLarge" ELSE "Ok"
=============================================================================
