CONSTANTS N = 12 B = 3 Sizes = {1, 2, 3} MaxSteps = 5
INIT Init
NEXT Next
INVARIANT Refines
INVARIANT NoSkipNoReread
CONSTRAINT Bound
CHECK_DEADLOCK FALSE
