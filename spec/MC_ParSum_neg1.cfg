CONSTANTS P = 17 N = 3 VLen = 2 FoldInit = 1 ReduceInit = 0 MaxIdent = 1
INIT Init
NEXT Next
INVARIANT SameAsSerial
CHECK_DEADLOCK FALSE
