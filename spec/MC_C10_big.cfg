CONSTANTS P = 17 GEN = 3 LOGN = 4 MaxLog = 1 Basis = "all"
INIT InitBig
NEXT Next
INVARIANT EmitInv
CHECK_DEADLOCK FALSE
