CONSTANTS B = 3 MaxHist = 1 Mode = "hist"
INIT InitHist
NEXT NextHist
INVARIANT RuleSane
INVARIANT EmitInv
CHECK_DEADLOCK FALSE
