---------------------------- MODULE Prng ----------------------------
(***************************************************************************)
(* Expansion of a byte stream into field elements (draft-irtf-cfrg-vdaf-18 *)
(* section 6.2.1 "expand_into_vec", src/prng.rs).                          *)
(*                                                                         *)
(* Abstract sampler: take successive element-sized chunks of the stream,   *)
(* discard the rejected ones, never skip or re-read a byte -- also across  *)
(* a change of field (into_new_field).                                     *)
(* Implementation-shaped machine: a look-ahead buffer of B elements of the *)
(* first field; chunks are taken from the buffer; on exhaustion the unread *)
(* tail (less than one element) moves to the front and the rest is         *)
(* refilled from the stream.  MC_C11 checks that the machine refines the   *)
(* sampler for every stream, rejection pattern and switch schedule.        *)
(*                                                                         *)
(* Stream bytes are abstract: byte i is <<i, rej>>; a chunk is rejected    *)
(* iff its last (most significant) byte carries rej = TRUE.                *)
(***************************************************************************)
EXTENDS Integers, Sequences
CONSTANTS N,       \* stream length explored
          B,       \* buffer size in elements of the initial field
          Sizes    \* element sizes (bytes) of the fields available

\* the buffer must hold at least one element of every field that can be switched to (in the library:
\* 32 elements of the first field, and no field is more than 32 times wider than another)
ASSUME \A a \in Sizes, b \in Sizes : B * a >= b

VARIABLES rej,     \* rejection flag of every stream byte (chosen initially, arbitrary)
          esize,   \* current element size
          buf, idx, pos,   \* implementation: buffer contents (stream positions), read index, stream position
          apos,    \* abstract sampler: next unread stream position
          outI, outA, \* elements produced so far by implementation / abstract sampler
          steps
vars == <<rej, esize, buf, idx, pos, apos, outI, outA, steps>>

Rejected(chunk) == rej[chunk[Len(chunk)]]
Range(a, n) == [i \in 1..n |-> a + i - 1]       \* stream positions a .. a+n-1

Init == /\ rej \in [1..N -> BOOLEAN]
        /\ esize \in Sizes
        /\ buf = Range(1, B * esize) /\ idx = 0 /\ pos = B * esize + 1    \* from_seed_stream fills the buffer
        /\ apos = 1 /\ outI = <<>> /\ outA = <<>> /\ steps = 0

\* ---- abstract sampler ----
RECURSIVE ANext(_, _)
ANext(p, e) ==   \* <<element or <<>> if the explored stream is exhausted, new position>>
  IF p + e - 1 > N THEN << <<>>, p >>
  ELSE LET c == Range(p, e) IN IF Rejected(c) THEN ANext(p + e, e) ELSE <<c, p + e>>

\* ---- implementation-shaped machine: Prng::get ----
RECURSIVE IGet(_, _, _, _)
IGet(b, i, p, e) ==  \* returns [el, buf, idx, pos]; el = <<>> when the explored stream is exhausted
  IF i + e <= Len(b)
  THEN LET c == SubSeq(b, i + 1, i + e) IN
       IF Rejected(c) THEN IGet(b, i + e, p, e) ELSE [el |-> c, buf |-> b, idx |-> i + e, pos |-> p]
  ELSE \* refill: leftover to the front, rest from the stream
       LET left == Len(b) - i
           need == Len(b) - left
       IN IF p + need - 1 > N THEN [el |-> <<>>, buf |-> b, idx |-> i, pos |-> p]
          ELSE IGet(SubSeq(b, i + 1, Len(b)) \o Range(p, need), 0, p + need, e)

Get ==
  LET a == ANext(apos, esize)  r == IGet(buf, idx, pos, esize) IN
  /\ a[1] # <<>> /\ r.el # <<>>          \* stay inside the explored stream prefix
  /\ outA' = Append(outA, a[1]) /\ apos' = a[2]
  /\ outI' = Append(outI, r.el) /\ buf' = r.buf /\ idx' = r.idx /\ pos' = r.pos
  /\ steps' = steps + 1
  /\ UNCHANGED <<rej, esize>>
Switch ==   \* into_new_field: only the element size changes
  /\ \E e \in Sizes \ {esize} : esize' = e
  /\ steps' = steps + 1
  /\ UNCHANGED <<rej, buf, idx, pos, apos, outI, outA>>
Next == Get \/ Switch
Spec == Init /\ [][Next]_vars

\* refinement: same elements, and the implementation's logical read position equals the sampler's
Refines == outI = outA
NoSkipNoReread == apos = pos - (Len(buf) - idx)
=============================================================================
