---------------------------- MODULE MC_C11 ----------------------------
(***************************************************************************)
(* C11 scripts.                                                            *)
(* (a) Sampling scripts: byte streams crafted so that rejected chunks sit  *)
(*     at every position of the look-ahead buffer, across refills and      *)
(*     around changes of field, with the elements the abstract sampler of  *)
(*     Prng.tla yields (chunk by chunk: mask, compare, discard).           *)
(* (b) XOF scripts: every way of splitting a domain-separation tag and a   *)
(*     binder into parts, and read-size sequences straddling block         *)
(*     boundaries; executed on the real XOFs and validated by C11_Trace.   *)
(***************************************************************************)
EXTENDS Integers, Sequences, FiniteSets, TLC, Json

\* ---- fields: [name, size, p (tiny only), mask] ----
Fields == { [name |-> "FieldPrio2", size |-> 4, tiny |-> FALSE], [name |-> "Field64", size |-> 8, tiny |-> FALSE],
            [name |-> "Field128", size |-> 16, tiny |-> FALSE], [name |-> "Field255", size |-> 32, tiny |-> FALSE],
            [name |-> "FieldV17", size |-> 1, tiny |-> TRUE, p |-> 17, mask |-> 32],
            [name |-> "FieldV193", size |-> 1, tiny |-> TRUE, p |-> 193, mask |-> 256],
            [name |-> "FieldV40961", size |-> 2, tiny |-> TRUE, p |-> 40961, mask |-> 65536] }
F(n) == CHOOSE f \in Fields : f.name = n
RECURSIVE LE(_, _)
LE(v, k) == IF k = 0 THEN <<>> ELSE <<v % 256>> \o LE(v \div 256, k - 1)
Val(chunk) == IF Len(chunk) = 1 THEN chunk[1] ELSE chunk[1] + 256 * chunk[2]
\* the abstract sampler's decision on one chunk, and the encoding of the element it yields
AllOnes(chunk) == \A i \in 1..Len(chunk) : chunk[i] = 255
Accept(f, chunk) == IF f.tiny THEN (Val(chunk) % f.mask) < f.p ELSE ~AllOnes(chunk)   \* scripts use only all-ones or top-byte-zero chunks on big fields
ElemEnc(f, chunk) == IF f.tiny THEN LE(Val(chunk) % f.mask, f.size) ELSE chunk
\* crafted chunks
Good(f, c) == \* an accepted chunk carrying the counter value c (bits above the modulus length set on tiny fields to exercise the mask)
  IF f.name = "FieldV17" THEN <<(c % 17) + 32 * (c % 8)>>
  ELSE IF f.name = "FieldV193" THEN <<c % 193>>
  ELSE IF f.name = "FieldV40961" THEN LE(c % 40961, 2)
  ELSE LE(c, f.size - 1) \o <<0>>
BadChunk(f) == \* a chunk the sampler must discard
  IF f.name = "FieldV17" THEN <<17 + 32 * 3>>        \* 17 after masking
  ELSE IF f.name = "FieldV193" THEN <<200>>
  ELSE IF f.name = "FieldV40961" THEN LE(40961 + 5, 2)
  ELSE [i \in 1..f.size |-> 255]
RECURSIVE Cat(_)
Cat(ss) == IF ss = <<>> THEN <<>> ELSE Head(ss) \o Cat(Tail(ss))

\* a script is a sequence of ops [field, n, rej]: draw n elements of `field`; before the k-th one
\* (k in rej) a rejected chunk is in the stream.  The stream and the expected elements follow.
RECURSIVE OpsStream(_, _)
OpsStream(ops, c0) ==
  IF ops = <<>> THEN <<>>
  ELSE LET o == Head(ops)  f == F(o.field) IN
       Cat([k \in 1..o.n |-> (IF k \in o.rej THEN BadChunk(f) ELSE <<>>) \o (IF (k + 100) \in o.rej THEN BadChunk(f) ELSE <<>>) \o Good(f, c0 + k)])
       \o OpsStream(Tail(ops), c0 + o.n)
RECURSIVE OpsExpect(_, _)
OpsExpect(ops, c0) ==
  IF ops = <<>> THEN <<>>
  ELSE LET o == Head(ops)  f == F(o.field) IN
       [k \in 1..o.n |-> ElemEnc(f, Good(f, c0 + k))] \o OpsExpect(Tail(ops), c0 + o.n)
Script(ops) == [t |-> "prng", ops |-> [i \in 1..Len(ops) |-> [field |-> ops[i].field, n |-> ops[i].n]],
                stream |-> OpsStream(ops, 0), expect |-> OpsExpect(ops, 0)]
\* the crafted chunks really are what the sampler accepts / rejects
ASSUME \A f \in Fields : ~Accept(f, BadChunk(f)) /\ \A c \in 1..200 : Accept(f, Good(f, c))

Names == {f.name : f \in Fields}
\* (a1) one field, 70 elements (more than two buffers), a rejection before element k, or before k and k+1,
\*      or two consecutive rejected chunks before k
Single == UNION { {<<[field |-> n, n |-> 70, rej |-> {k}]>> : k \in 1..70}
                  \cup {<<[field |-> n, n |-> 70, rej |-> {k, k + 1}]>> : k \in {1, 31, 32, 33, 63, 64, 65}}
                  \cup {<<[field |-> n, n |-> 70, rej |-> {k, k + 100}]>> : k \in {1, 32, 33, 64}}
                  \cup {<<[field |-> n, n |-> 70, rej |-> {}]>>, <<[field |-> n, n |-> 70, rej |-> 1..70]>>} : n \in Names }
\* (a2) a change of field at every point relative to the buffer, with rejections around it
Pairs == {<<"Field64", "Field255">>, <<"Field255", "Field64">>, <<"FieldV17", "Field255">>, <<"Field128", "FieldPrio2">>,
          <<"FieldPrio2", "Field128">>, <<"FieldV40961", "FieldV17">>, <<"FieldV17", "FieldV40961">>, <<"Field64", "FieldV193">>}
Switches == UNION { { <<[field |-> pr[1], n |-> a, rej |-> IF lastrej THEN {a} ELSE {}], [field |-> pr[2], n |-> 40, rej |-> r2]>> :
                        a \in {0, 1, 2, 3, 5, 30, 31, 32, 33, 34, 63, 64, 65}, lastrej \in BOOLEAN, r2 \in {{}, {1}, {2, 3}} } : pr \in Pairs }
\* (a3) the Poplar1 pattern: many inner-field elements, then the leaf field, switching back and forth
Triples == { <<[field |-> "Field64", n |-> a, rej |-> {1}], [field |-> "Field255", n |-> 2, rej |-> {2}], [field |-> "Field64", n |-> 40, rej |-> {3, 40}]>> : a \in {1, 4, 29, 31, 32} }

\* ---- (b) XOF scripts ----
Bytes4 == <<1, 2, 3, 4>>
Splits(s) == \* all ways to cut s into at most 3 (possibly empty) consecutive parts
  {<<s>>} \cup {<<SubSeq(s, 1, i), SubSeq(s, i + 1, Len(s))>> : i \in 0..Len(s)}
          \cup {<<SubSeq(s, 1, q[1]), SubSeq(s, q[1] + 1, q[2]), SubSeq(s, q[2] + 1, Len(s))>> :
                   q \in {r \in (0..Len(s)) \X (0..Len(s)) : r[1] <= r[2]}}
ReadSeqs == { <<96>>, <<1, 95>>, <<15, 1, 16, 17, 31, 16>>, <<16, 16, 16, 16, 16, 16>>, <<17, 15, 33, 31>>, <<0, 32, 0, 33, 31>>,
              <<31, 1, 32, 32>>, <<33, 31, 32>>, <<8, 16, 8>>, <<8, 32, 3>>, <<1, 16, 16>>, <<5, 12, 20>>, <<15, 2, 15, 2>>, <<3, 30, 7>>, <<7, 17, 9, 33>>, <<9, 48>>, <<1, 1, 1, 1, 1, 1, 1, 1, 1, 1, 1, 1, 1, 1, 1, 1, 1, 79>>, <<32>>, <<16>>, <<5>>,
              \* word-sized reads (also taken through next_u32 / next_u64 by the harness)
              <<4, 4, 8, 16>>, <<8, 4, 20>>, <<4, 28>>, <<3, 4, 8, 4, 13>> }
XofScripts == {[t |-> "xof", dst_parts |-> ds, binder_parts |-> bs, reads |-> r] : ds \in Splits(Bytes4), bs \in Splits(<<9, 8, 7, 6>>), r \in ReadSeqs}
              \cup {[t |-> "xof", dst_parts |-> <<ds>>, binder_parts |-> <<bs>>, reads |-> r] :
                       ds \in {<<>>, <<1>>, <<1, 2, 3, 4, 5>>}, bs \in {<<>>, <<7>>, [i \in 1..40 |-> i]}, r \in ReadSeqs}
\* separation scripts: tags / binders of several parts that differ in exactly one (possibly late, possibly empty) part
XofSepScripts == {[t |-> "xof", dst_parts |-> ds, binder_parts |-> bs, reads |-> r] :
                     ds \in {<< <<1, 2>>, <<3, 4>> >>, << <<1, 2>>, <<3, 5>> >>, << <<1, 2>>, <<>> >>, << <<1, 2>>, <<3, 4>>, <<9>> >>, << <<1, 3>>, <<3, 4>> >>, << <<1, 2>>, <<3>> >>},
                     bs \in {<< <<9, 8>>, <<7, 6>> >>, << <<9, 8>>, <<7, 7>> >>, << <<9, 8>> >>, << <<9, 8>>, <<7, 6>>, <<0>> >>, << <<8, 8>>, <<7, 6>> >>},
                     r \in {<<32>>, <<5, 27>>}}
   \* the empty tag / binder given as zero parts, as one empty part and as two empty parts (one concatenation, one stream), next to
   \* binders that start with the byte a length prefix of zero would be
   \cup {[t |-> "xof", dst_parts |-> ds, binder_parts |-> bs, reads |-> <<32>>] :
            ds \in {<< >>, << <<>> >>, << <<>>, <<>> >>, << <<0>> >>},
            bs \in {<< >>, << <<>> >>, << <<>>, <<>> >>, << <<7>> >>, << <<0, 7>> >>, << <<0>>, <<7>> >>}}

VARIABLE st
InitPrng == st \in {Script(o) : o \in Single \cup Switches \cup Triples}
InitPrngQuick == st \in {Script(o) : o \in {x \in Single : x[1].field \in {"Field64", "Field255", "FieldV17", "FieldV40961"}} \cup Switches \cup Triples}
InitXof == st \in XofScripts
InitXofSep == st \in XofSepScripts
Next == UNCHANGED st
\* the expected elements are exactly what the abstract sampler yields on the crafted stream
RECURSIVE Sampler(_, _, _)
Sampler(stream, pos, ops) ==     \* ops = sequence of <<field name, n>>
  IF ops = <<>> THEN <<>>
  ELSE LET f == F(ops[1][1])  n == ops[1][2] IN
       IF n = 0 THEN Sampler(stream, pos, Tail(ops))
       ELSE LET chunk == SubSeq(stream, pos, pos + f.size - 1) IN
            IF Accept(f, chunk) THEN <<ElemEnc(f, chunk)>> \o Sampler(stream, pos + f.size, <<<<ops[1][1], n - 1>>>> \o Tail(ops))
            ELSE Sampler(stream, pos + f.size, ops)
ScriptSane == st.t = "prng" => Sampler(st.stream, 1, [i \in 1..Len(st.ops) |-> <<st.ops[i].field, st.ops[i].n>>]) = st.expect
EmitInv == PrintT(<<"REPLAY", ToJson(st)>>)
=============================================================================
