CONSTANTS P = 40961 GEN = 243 LOGN = 13 Tier = "thorough"
INIT InitProbe
NEXT Next
INVARIANT EmitInv
CHECK_DEADLOCK FALSE
