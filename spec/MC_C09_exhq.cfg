INIT InitExhQuick
NEXT Next
INVARIANT AlgorithmIsMeaning
INVARIANT MeaningSane
INVARIANT ParamsOK
INVARIANT EmitInv
CHECK_DEADLOCK FALSE
