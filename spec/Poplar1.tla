---------------------------- MODULE Poplar1 ----------------------------
(***************************************************************************)
(* Poplar1 (draft-irtf-cfrg-vdaf-18 section 8) at share level over GF(P).  *)
(*                                                                         *)
(* For one report and one aggregation parameter with k candidate prefixes  *)
(* the IDPF gives the two aggregators additive shares of a data vector y   *)
(* and an authenticator vector z (honestly: y one-hot at the candidate on  *)
(* the input's path, or zero; z = auth * y) -- this contract is C06.  The  *)
(* client also hands out shares of correlated randomness a, b, c and of    *)
(*   A = -2a + auth,   B = a^2 + b - a*auth + c.                           *)
(* Verification (two rounds) with verification randomness r_1..r_k:        *)
(*   round 1: aggregator j publishes                                       *)
(*      (a_j + sum r_i y_ij,  b_j + sum r_i^2 y_ij,  c_j + sum r_i z_ij)   *)
(*   round 2: from the sum s of those, aggregator j publishes              *)
(*      A_j * s_0 + B_j  [+ s_0^2 - s_1 - s_2 for exactly one of them]     *)
(*   accept iff the two round-2 shares sum to zero.                        *)
(***************************************************************************)
EXTENDS GF, Poplar1Rounds

Dot(r, v) == SumSeq([i \in 1..Len(v) |-> Mul(r[i], v[i])])
Sq(r) == [i \in 1..Len(r) |-> Mul(r[i], r[i])]

\* additive sharing with the helper's share given
Lead(v, h) == VecSub(v, h)

Sketch1(abc, y, z, r) == <<Add(abc[1], Dot(r, y)), Add(abc[2], Dot(Sq(r), y)), Add(abc[3], Dot(r, z))>>
Sketch2(AB, s, isHelper) == Add(Add(Mul(AB[1], s[1]), AB[2]), IF isHelper THEN Sub(Sub(Mul(s[1], s[1]), s[2]), s[3]) ELSE 0)

\* One verification of a report: everything the two aggregators compute, from their shares.
\* sh = [y0, y1, z0, z1, abc0, abc1, AB0, AB1]
Verify(sh, r) ==
  LET s == VecAdd(Sketch1(sh.abc0, sh.y0, sh.z0, r), Sketch1(sh.abc1, sh.y1, sh.z1, r))
      sigma == Add(Sketch2(sh.AB0, s, FALSE), Sketch2(sh.AB1, s, TRUE))
  IN [accept |-> sigma = 0, sketch |-> s, sigma |-> sigma, out0 |-> sh.y0, out1 |-> sh.y1]

\* honest client: y one-hot (or zero) and z = auth*y, A and B as prescribed; any split into shares
HonestAB(a, b, c, auth) == <<Add(Neg(Mul(2, a)), auth), Add(Add(Sub(Add(Mul(a, a), b), Mul(a, auth)), c), 0)>>
Shares(y, z, abc, AB, hy, hz, habc, hAB) ==
  [y0 |-> Lead(y, hy), y1 |-> hy, z0 |-> Lead(z, hz), z1 |-> hz, abc0 |-> Lead(abc, habc), abc1 |-> habc, AB0 |-> Lead(AB, hAB), AB1 |-> hAB]

\* the polynomial the verifier's sum is, in r (what an arbitrary client can program):
\*   sigma = (sum r_i y_i)^2 - sum r_i^2 y_i + (auth + dA) * sum r_i y_i - sum r_i z_i + dA*a + dB
\* where A = -2a + auth + dA and B = a^2 + b - a*auth + c + dB.
IsOneHot01(y) == (\A i \in 1..Len(y) : y[i] \in {0, 1}) /\ Cardinality({i \in 1..Len(y) : y[i] = 1}) <= 1
\* the report is well-formed for this parameter: accepted for EVERY r
WellFormed(y, z, a, auth, dA, dB) ==
  /\ IsOneHot01(y)
  /\ \A i \in 1..Len(y) : z[i] = Mul(Add(auth, dA), y[i])
  /\ dB = Neg(Mul(dA, a))

=============================================================================
