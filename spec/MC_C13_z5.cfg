CONSTANTS M = 0 Shares <- SharesZ5 Bad <- BadZ Kind = "inner" L = 3 MaxAccs = 2 MaxSteps = 9
INIT Init
NEXT Next
INVARIANT PartialSums
INVARIANT NoDoubleCount
INVARIANT FinalIsSinglePass
INVARIANT EmitInv
CHECK_DEADLOCK FALSE
