---------------------------- MODULE ApiDomain ----------------------------
(***************************************************************************)
(* Argument domains of the fallible public operations of libprio-rs: for   *)
(* each constructor / protocol operation, the predicate that says whether  *)
(* the arguments are admissible, as stated by the API documentation and    *)
(* draft-irtf-cfrg-vdaf-18.  Expected class of a call:                     *)
(*   "Ok"     admissible: must succeed (and the instance must be usable)   *)
(*   "Err"    inadmissible: must return an error -- no panic, overflow,    *)
(*            abort, and no instance whose declared sizes are nonsense     *)
(*   "Either" the documentation leaves it open; only "no panic" is asked   *)
(* Integers are BigNat limb sequences so that usize / u128 extremes are    *)
(* exact.                                                                  *)
(***************************************************************************)
EXTENDS Codec      \* BigNat + FieldPrime

Z(x) == Norm(x) = <<>>
Le(a, b) == ~BigLt(b, a)
TwoTo(k) == Pow2Big(k)
USIZE == TwoTo(64)                      \* first value that does not fit a usize
U32MAX == BigSub(TwoTo(32), <<1>>)
FitsUsize(x) == BigLt(x, USIZE)

RECURSIVE BitLenInt(_)
BitLenInt(n) == IF n = 0 THEN 0 ELSE 1 + BitLenInt(n \div 2)
BitsOf(x) == LET n == Norm(x) IN IF n = <<>> THEN 0 ELSE 12 * (Len(n) - 1) + BitLenInt(n[Len(n)])   \* bit length

\* lengths of a chunked type stay representable (sufficient / necessary conditions; in between: Either)
SurelyRepresentable(inputlen, chunk) == BigLt(BigAdd(BigAdd(BigMul(<<2>>, chunk), BigMul(<<4>>, BigAdd(inputlen, <<1>>))), <<1>>), USIZE)
SurelyNot(inputlen, chunk) == ~BigLt(BigMul(<<2>>, chunk), USIZE) \/ ~FitsUsize(inputlen)
ChunkedClass(basic_ok, inputlen, chunk) ==
  IF ~basic_ok THEN "Err"
  ELSE IF SurelyNot(inputlen, chunk) THEN "Err"
  ELSE IF SurelyRepresentable(inputlen, chunk) THEN "Ok" ELSE "Either"

MaxOK(f, max) == ~Z(max) /\ BigLt(max, FieldPrime(f))
NaggOK(n) == n >= 1 /\ n <= 254

Expect(c) ==
  CASE c.op = "sum_new" -> IF MaxOK(c.f, c.max) THEN "Ok" ELSE "Err"
    [] c.op = "sumvec_new" -> ChunkedClass(MaxOK(c.f, c.max) /\ ~Z(c.len) /\ ~Z(c.chunk), BigMul(FromInt(BitsOf(c.max)), c.len), c.chunk)
    [] c.op = "histogram_new" -> ChunkedClass(~Z(c.len) /\ BigLt(c.len, U32MAX) /\ ~Z(c.chunk), c.len, c.chunk)
    [] c.op = "multihot_new" -> ChunkedClass(~Z(c.len) /\ BigLt(c.len, U32MAX) /\ ~Z(c.chunk) /\ MaxOK(c.f, c.maxw),
                                             BigAdd(c.len, FromInt(BitsOf(c.maxw))), c.chunk)
    [] c.op = "l1boundsum_new" -> ChunkedClass(MaxOK(c.f, c.max) /\ ~Z(c.len) /\ ~Z(c.chunk), BigMul(FromInt(BitsOf(c.max)), BigAdd(c.len, <<1>>)), c.chunk)
    [] c.op = "alias_count" -> IF NaggOK(c.nagg) THEN "Ok" ELSE "Err"
    [] c.op \in {"alias_sum", "alias_average"} -> IF NaggOK(c.nagg) /\ MaxOK(c.f, c.max) THEN "Ok" ELSE "Err"
    [] c.op = "alias_sumvec" -> IF ~NaggOK(c.nagg) THEN "Err" ELSE ChunkedClass(MaxOK(c.f, c.max) /\ ~Z(c.len) /\ ~Z(c.chunk), BigMul(FromInt(BitsOf(c.max)), c.len), c.chunk)
    [] c.op = "alias_histogram" -> IF ~NaggOK(c.nagg) THEN "Err" ELSE ChunkedClass(~Z(c.len) /\ BigLt(c.len, U32MAX) /\ ~Z(c.chunk), c.len, c.chunk)
    [] c.op = "prio3_new" -> IF NaggOK(c.nagg) /\ c.np >= 1 THEN "Ok" ELSE "Err"
    [] c.op = "prio2_new" -> \* 2 * NextPow2(n + 1) must not exceed the 2^20 roots of the field
         IF Le(BigAdd(c.n, <<1>>), TwoTo(19)) THEN "Ok" ELSE "Err"
    [] c.op = "rational" -> IF Z(c.d) THEN "Err" ELSE "Ok"
    \* a float converts to a (non-negative) rational iff it is finite and not below zero; c.cls classifies the literal
    [] c.op = "rational_f32" -> IF c.cls \in {"zero", "negzero", "positive"} THEN "Ok" ELSE "Err"
    [] c.op \in {"zcdp_budget", "puredp_budget", "laplace_new"} -> IF Z(c.n) THEN "Err" ELSE "Ok"
    [] c.op = "gaussian_new" -> "Ok"
    \* ---- measurements offered to shard ----
    [] c.op = "shard_sum" -> IF Le(c.m, c.max) THEN "Ok" ELSE "Err"
    [] c.op = "shard_histogram" -> IF BigLt(c.m, c.len) THEN "Ok" ELSE "Err"
    [] c.op = "shard_sumvec" -> IF FromInt(Len(c.m)) = Norm(c.len) /\ \A i \in 1..Len(c.m) : Le(c.m[i], c.max) THEN "Ok" ELSE "Err"
    [] c.op = "shard_multihot" -> IF FromInt(Len(c.m)) = Norm(c.len) /\ Le(FromInt(c.weight), c.maxw) THEN "Ok" ELSE "Err"
    [] c.op = "shard_l1boundsum" ->
         LET RECURSIVE tot(_)  tot(i) == IF i = 0 THEN <<>> ELSE BigAdd(c.m[i], tot(i - 1)) IN
         IF FromInt(Len(c.m)) = Norm(c.len) /\ (\A i \in 1..Len(c.m) : Le(c.m[i], c.max)) /\ Le(tot(Len(c.m)), c.max) THEN "Ok" ELSE "Err"
    [] c.op = "shard_prio2" -> IF FromInt(c.mlen) = Norm(c.n) THEN "Ok" ELSE "Err"
    [] c.op = "shard_poplar1" -> IF c.mbits = c.bits THEN "Ok" ELSE "Err"
    \* ---- roles, counts ----
    [] c.op \in {"vinit_prio3", "vinit_prio2", "vinit_poplar1"} -> IF BigLt(c.aid, FromInt(c.nagg)) THEN "Ok" ELSE "Err"
    [] c.op \in {"s2m_prio3", "s2m_prio2", "s2m_poplar1"} -> IF c.count = c.nagg THEN "Ok" ELSE "Err"
    [] c.op = "vinit_poplar1_level" -> IF c.level < c.bits THEN "Ok" ELSE "Err"
    \* an aggregation parameter is a non-empty, strictly increasing list of prefixes of one length 1..2^16 (level = length - 1 fits 16 bits);
    \* c.shape describes the list built by the harness from prefixes of c.plen bits
    [] c.op = "aggparam_new" -> IF c.plen >= 1 /\ c.plen <= 65536 /\ c.shape \in {"one", "two_sorted", "three_sorted"} THEN "Ok" ELSE "Err"
    \* decoding BE16(level) . BE32(count) . count prefixes of ceil((level+1)/8) bytes (canonical, increasing), c.extra trailing/missing bytes
    [] c.op = "aggparam_decode" -> IF c.level <= 65535 /\ c.count >= 1 /\ c.extra = 0 /\ c.sorted THEN "Ok" ELSE "Err"
    [] c.op \in {"agg_wrong_len", "unshard_wrong_len", "truncate_len", "decode_result_len"} -> IF c.got = c.want THEN "Ok" ELSE "Err"
    \* Poplar1 unshard / aggregate / merge with aggregate shares whose tree-level kind or length is not the aggregation parameter's
    [] c.op \in {"poplar1_unshard", "poplar1_aggregate"} -> IF c.pleaf = c.sleaf /\ c.pn = c.sn THEN "Ok" ELSE "Err"
    [] c.op = "wrong_role_share" -> "Either"
    [] c.op = "unshard_count" -> "Either"
\* the follow-up flow (shard -> verify -> aggregate -> unshard) is run when the sizes fit the memory budget
Usable(c) ==
  CASE c.op \in {"sumvec_new", "histogram_new", "multihot_new", "l1boundsum_new"} ->
         BigLt(c.len, FromInt(3000)) /\ BigLt(c.chunk, FromInt(3000)) /\ (("max" \notin DOMAIN c) \/ BitsOf(c.max) <= 64 \/ BigLt(c.len, FromInt(40)))
    [] c.op = "prio2_new" -> BigLt(c.n, FromInt(5000))
    [] c.op \in {"alias_sumvec", "alias_histogram"} -> BigLt(c.len, FromInt(3000)) /\ BigLt(c.chunk, FromInt(3000)) /\ (("max" \notin DOMAIN c) \/ BigLt(c.len, FromInt(40)))
    [] c.op \in {"sum_new", "prio3_new", "alias_count", "alias_sum", "alias_average"} -> TRUE
    [] OTHER -> FALSE
=============================================================================
