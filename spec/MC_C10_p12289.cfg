CONSTANTS P = 12289 GEN = 1331 LOGN = 12 MaxLog = 6 Basis = "some"
INIT Init
NEXT Next
INVARIANT DefsSane
INVARIANT EmitInv
CHECK_DEADLOCK FALSE
