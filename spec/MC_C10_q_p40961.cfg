CONSTANTS P = 40961 GEN = 243 LOGN = 13 MaxLog = 4 Basis = "some"
INIT Init
NEXT Next
INVARIANT DefsSane
INVARIANT EmitInv
CHECK_DEADLOCK FALSE
