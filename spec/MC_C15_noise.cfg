CONSTANTS D = 1
INIT InitNoise
NEXT NextNoise
INVARIANT NoiseEmit
CHECK_DEADLOCK FALSE
