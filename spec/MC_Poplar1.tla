---------------------------- MODULE MC_Poplar1 ----------------------------
(* C03 / C04 on the model: completeness for every randomness, exact characterization of the       *)
(* reports accepted for every r, and the size of the accept set of every other report.            *)
EXTENDS Poplar1, TLC
CONSTANT K        \* number of candidate prefixes

VARIABLE st
Vals == {0, 1, 2, P - 1}
Init == st \in [y : [1..K -> Vals], z : [1..K -> {0, 3, 6, P - 3}], a : {0, 2}, auth : {3}, dA : {0, 1}, dB : {0, P - 2, 5}]
Next == UNCHANGED st

R == [1..K -> F]
Report(s) ==
  LET abc == <<s.a, 5, 7>>
      AB0 == HonestAB(s.a, 5, 7, s.auth)
      AB == <<Add(AB0[1], s.dA), Add(AB0[2], s.dB)>>
  IN Shares(s.y, s.z, abc, AB, [i \in 1..K |-> (3 * i + 1) % P], [i \in 1..K |-> (5 * i + 2) % P], <<4, 9, 11>>, <<6, 13>>)
AcceptSet(s) == {r \in R : Verify(Report(s), r).accept}

\* C03: honest reports are accepted for every verification randomness, and the output shares sum to y
Complete == WellFormed(st.y, st.z, st.a, st.auth, st.dA, st.dB) =>
   /\ AcceptSet(st) = R
   /\ VecAdd(Report(st).y0, Report(st).y1) = st.y
\* C04: anything else is accepted for at most 2 * P^(K-1) of the P^K randomness vectors, so whatever is
\* accepted with more than negligible probability contributes a zero or one-hot 0/1 vector
Sound == ~WellFormed(st.y, st.z, st.a, st.auth, st.dA, st.dB) => Cardinality(AcceptSet(st)) * P <= 2 * Cardinality(R)
\* the closed form of the verifier's sum
ClosedForm == \A r \in {[i \in 1..K |-> (2 * i + 3) % P], [i \in 1..K |-> i % P]} :
   LET Y == Dot(r, st.y)  Y2 == Dot(Sq(r), st.y)  Z == Dot(r, st.z) IN
   Verify(Report(st), r).sigma = Add(Add(Sub(Sub(Add(Mul(Y, Y), Mul(Add(st.auth, st.dA), Y)), Y2), Z), Mul(st.dA, st.a)), st.dB)
\* the deviation form used by the trace spec of the real code agrees with WellFormed (k = 1, honest A share)
\* (deviations are small integers there; here they are read modulo P with P-1 = -1, P-2 = -2, P-3 = -3)
DevAgrees == (K = 1 /\ st.dA = 0) =>
   LET dz == Sub(st.z[1], Mul(st.auth, st.y[1])) IN
   WellFormed(st.y, st.z, st.a, st.auth, st.dA, st.dB) = DevWellFormed(st.y[1], dz, st.dB)
\* round structure: exactly the matching variants progress
Rounds == \A sk \in Kinds, mk \in Kinds, rd \in {1, 2}, body \in {"sketch", "done"} :
   VerifyNextOK([kind |-> sk, round |-> rd], [kind |-> mk, body |-> body]) = ((rd = 1 /\ body = "sketch" /\ sk = mk) \/ (rd = 2 /\ body = "done"))
=============================================================================
