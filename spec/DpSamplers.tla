---------------------------- MODULE DpSamplers ----------------------------
(***************************************************************************)
(* The exact samplers of Canonne, Kamath, Steinke, "The Discrete Gaussian  *)
(* for Differential Privacy" (CKS20), Algorithms 1-3, as used by           *)
(* libprio-rs: deterministic transducers from a tape of uniform random     *)
(* words to an outcome.  Their only source of randomness is "uniform       *)
(* integer below a bound" by rejection on bit strings.                     *)
(*                                                                         *)
(* A tape is a sequence of 16-bit values h; a draw below `bound` (bit      *)
(* length b <= 16) uses the top b bits of the next value:  n = h div       *)
(* 2^(16-b), and is repeated while n >= bound.  (The implementation reads  *)
(* a 32-bit word whose top half is h.)                                     *)
(* Every sampler returns [ok, v, rest]: ok = FALSE when the tape ran out.  *)
(* Rationals are pairs <<n, d>> kept in lowest terms (as num-rational).    *)
(***************************************************************************)
EXTENDS Integers, Sequences

RECURSIVE Gcd(_, _)
Gcd(a, b) == IF b = 0 THEN a ELSE Gcd(b, a % b)
Q(n, d) == LET g == Gcd(n, d) IN IF g = 0 THEN <<0, 1>> ELSE <<n \div g, d \div g>>
RECURSIVE BitLen(_)
BitLen(n) == IF n = 0 THEN 0 ELSE 1 + BitLen(n \div 2)
Need(b) == [ok |-> FALSE, v |-> 0, rest |-> <<>>, want |-> b]     \* the tape ran out at a draw of b bits
Ret(v, rest) == [ok |-> TRUE, v |-> v, rest |-> rest]

\* uniform integer in 0..bound-1 (random_biguint_below)
RECURSIVE Below(_, _)
Below(bound, tape) ==
  IF tape = <<>> THEN Need(BitLen(bound))
  ELSE LET b == BitLen(bound)  n == Head(tape) \div (2 ^ (16 - b)) IN
       IF n < bound THEN Ret(n, Tail(tape)) ELSE Below(bound, Tail(tape))

\* Bernoulli(n/d), n/d <= 1:  draw s uniform in 1..d, return s <= n
Bernoulli(q, tape) == LET r == Below(q[2], tape) IN IF ~r.ok THEN r ELSE Ret(r.v + 1 <= q[1], r.rest)

\* Bernoulli(exp(-g)), 0 <= g <= 1 (CKS20 Algorithm 1, first branch)
RECURSIVE BExp1Loop(_, _, _)
BExp1Loop(g, k, tape) ==
  LET r == Bernoulli(Q(g[1], g[2] * k), tape) IN
  IF ~r.ok THEN r ELSE IF r.v THEN BExp1Loop(g, k + 1, r.rest) ELSE Ret(k % 2 = 1, r.rest)
BernoulliExp1(g, tape) == BExp1Loop(g, 1, tape)

\* Bernoulli(exp(-g)), any g >= 0 (second branch)
RECURSIVE BExpLoop(_, _, _)
BExpLoop(g, i, tape) ==
  IF i > g[1] \div g[2] THEN BernoulliExp1(Q(g[1] - (g[1] \div g[2]) * g[2], g[2]), tape)
  ELSE LET r == BernoulliExp1(<<1, 1>>, tape) IN
       IF ~r.ok THEN r ELSE IF ~r.v THEN Ret(FALSE, r.rest) ELSE BExpLoop(g, i + 1, r.rest)
BernoulliExp(g, tape) == BExpLoop(g, 1, tape)

\* Geometric(1 - exp(-s/t)) (CKS20 Algorithm 2, all but the last three lines)
RECURSIVE GeoU(_, _)
GeoU(t, tape) ==   \* draw u uniform in 0..t-1 until Bernoulli(exp(-u/t)) succeeds
  LET u == Below(t, tape) IN
  IF ~u.ok THEN u
  ELSE LET a == BernoulliExp1(Q(u.v, t), u.rest) IN
       IF ~a.ok THEN a ELSE IF a.v THEN Ret(u.v, a.rest) ELSE GeoU(t, a.rest)
RECURSIVE GeoV(_, _)
GeoV(v, tape) ==   \* count successes of Bernoulli(exp(-1))
  LET a == BernoulliExp1(<<1, 1>>, tape) IN
  IF ~a.ok THEN a ELSE IF a.v THEN GeoV(v + 1, a.rest) ELSE Ret(v, a.rest)
GeometricExp(g, tape) ==
  IF g[1] = 0 THEN Ret(0, tape)
  ELSE LET u == GeoU(g[2], tape) IN
       IF ~u.ok THEN u
       ELSE LET v == GeoV(0, u.rest) IN
            IF ~v.ok THEN v ELSE Ret((u.v + g[2] * v.v) \div g[1], v.rest)

\* discrete Laplace with scale s/t (CKS20 Algorithm 2)
RECURSIVE Laplace(_, _)
Laplace(sc, tape) ==
  IF sc[1] = 0 THEN Ret(0, tape)
  ELSE LET sg == Bernoulli(<<1, 2>>, tape) IN
       IF ~sg.ok THEN sg
       ELSE LET y == GeometricExp(<<sc[2], sc[1]>>, sg.rest) IN
            IF ~y.ok THEN y
            ELSE IF sg.v /\ y.v = 0 THEN Laplace(sc, y.rest)
            ELSE Ret(IF sg.v THEN 0 - y.v ELSE y.v, y.rest)

\* discrete Gaussian with standard deviation sigma = s/d (CKS20 Algorithm 3)
Abs(x) == IF x < 0 THEN 0 - x ELSE x
RECURSIVE Gaussian(_, _)
Gaussian(sg, tape) ==
  IF sg[1] = 0 THEN Ret(0, tape)
  ELSE LET t == (sg[1] \div sg[2]) + 1
           y == Laplace(<<t, 1>>, tape)
       IN IF ~y.ok THEN y
          ELSE \* accept with probability exp(-(|y| - sigma^2/t)^2 / (2 sigma^2))
               LET s2 == Q(sg[1] * sg[1], sg[2] * sg[2])             \* sigma^2
                   num == Abs(Abs(y.v) * t * s2[2] - s2[1])           \* | |y| - sigma^2/t | = num / (t * s2[2])
                   \* (num/(t*s2d))^2 / (2*s2n/s2d) = num^2 * s2d / (t^2 * s2d^2 * 2 * s2n) = num^2 / (2 t^2 s2d s2n)
                   pr == Q(num * num, 2 * t * t * s2[2] * s2[1])
                   a == BernoulliExp(pr, y.rest)
               IN IF ~a.ok THEN a ELSE IF a.v THEN Ret(y.v, a.rest) ELSE Gaussian(sg, a.rest)

Run(layer, q, tape) ==
  CASE layer = "below" -> Below(q[1], tape)
    [] layer = "bernoulli" -> Bernoulli(q, tape)
    [] layer = "bernoulli_exp1" -> BernoulliExp1(q, tape)
    [] layer = "bernoulli_exp" -> BernoulliExp(q, tape)
    [] layer = "geometric_exp" -> GeometricExp(q, tape)
    [] layer = "laplace" -> Laplace(q, tape)
    [] layer = "gaussian" -> Gaussian(q, tape)
\* number of bits of the next draw on a tape prefix that ran out (what the sampler would ask for next)
=============================================================================
