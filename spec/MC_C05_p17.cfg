CONSTANTS P = 17 GEN = 3 LOGN = 4 Tier = "thorough"
INIT Init
NEXT Next
INVARIANT Lengths
INVARIANT Completeness
INVARIANT ValidAgrees
INVARIANT Linearity
INVARIANT HonestProofGadgetTest
INVARIANT LagEvalRootsAgrees
INVARIANT EmitInv
CHECK_DEADLOCK FALSE
