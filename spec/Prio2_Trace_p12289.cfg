CONSTANTS P = 12289 GEN = 1331 LOGN = 12
INIT Init
NEXT Next
POSTCONDITION Accepted
CHECK_DEADLOCK FALSE
