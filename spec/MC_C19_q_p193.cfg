CONSTANTS P = 193 GEN = 125 LOGN = 6 MaxDim = 2
INIT Init
NEXT Next
INVARIANT Complete
INVARIANT Sound
INVARIANT Tamper
INVARIANT Safety
INVARIANT ProofLen
CHECK_DEADLOCK FALSE
