---------------------------- MODULE Flp ----------------------------
(***************************************************************************)
(* The fully linear proof system of draft-irtf-cfrg-vdaf (section 7.3) and *)
(* the validity circuits shipped with libprio-rs, written from the draft's *)
(* definitions over GF(P).                                                 *)
(*                                                                         *)
(* A circuit is a record c with c.kind in                                  *)
(*   "Count" | "Sum"(max) | "SumVec"(max,len,chunk) | "Histogram"(len,     *)
(*   chunk) | "Multihot"(len,maxw,chunk) | "L1BoundSum"(max,len,chunk) |   *)
(*   "HigherDegree"                                                        *)
(* Proof layout: wire seeds, then the gadget polynomial given by its       *)
(* values on the first GPolyLen points of the NextPow2(GPolyLen)-th roots  *)
(* of unity.                                                               *)
(***************************************************************************)
EXTENDS GF, TLC

Chunked(c) == c.kind \in {"Histogram", "SumVec", "Multihot", "L1BoundSum"}

\* "range-checked integer" encoding: bits-1 binary digits plus a last digit of weight LastWeight
Bits(max) == ILog2(max) + 1
LastWeight(max) == max - (Pow2(Bits(max) - 1) - 1)
EncodeRC(v, max) ==
  LET b == Bits(max)  hi == v > Pow2(b - 1) - 1  t == IF hi THEN v - LastWeight(max) ELSE v
  IN [i \in 1..b |-> IF i = b THEN (IF hi THEN 1 ELSE 0) ELSE (t \div Pow2(i - 1)) % 2]
DecodeRC(xs, max) ==   \* linear: works on shares
  IF xs = <<>> THEN 0
  ELSE LET b == Len(xs) IN
       Add(SumSeq([i \in 1..(b - 1) |-> Mul(Pow(2, i - 1), xs[i])]), Mul(xs[b], LastWeight(max) % P))

\* number of digits of the circuit's bound; a descriptor may carry it directly (field "bits") when the bound itself
\* does not fit a model integer (deployed parameters such as 2^64 - 1: Aliases_Trace.tla)
BitsC(c) == IF "bits" \in DOMAIN c THEN c.bits ELSE Bits(c.max)
InputLen(c) ==
  CASE c.kind = "Count" -> 1
    [] c.kind = "Sum" -> BitsC(c)
    [] c.kind = "SumVec" -> BitsC(c) * c.len
    [] c.kind = "Histogram" -> c.len
    [] c.kind = "Multihot" -> c.len + Bits(c.maxw)
    [] c.kind = "L1BoundSum" -> BitsC(c) * (c.len + 1)
    [] c.kind = "HigherDegree" -> 1
    [] c.kind = "Ternary" -> c.len          \* user-defined: len digits 0..2, a degree-3 gadget called once per digit
Calls(c) ==
  CASE c.kind = "Count" -> 1
    [] c.kind = "Sum" -> BitsC(c)
    [] c.kind = "HigherDegree" -> 1
    [] c.kind = "Ternary" -> c.len
    [] OTHER -> CeilDiv(InputLen(c), c.chunk)
Gadget(c) ==
  CASE c.kind = "Count" -> [g |-> "Mul", arity |-> 2, degree |-> 2, calls |-> 1, chunks |-> 0]
    [] c.kind = "Sum"   -> [g |-> "Range2", arity |-> 1, degree |-> 2, calls |-> Calls(c), chunks |-> 0]
    [] c.kind = "HigherDegree" -> [g |-> "Range3", arity |-> 1, degree |-> 3, calls |-> 1, chunks |-> 0]
    [] c.kind = "Ternary" -> [g |-> "Range3", arity |-> 1, degree |-> 3, calls |-> c.len, chunks |-> 0]
    [] OTHER -> [g |-> "ParSum", arity |-> 2 * c.chunk, degree |-> 2, calls |-> Calls(c), chunks |-> c.chunk]
JointRandLen(c) == IF Chunked(c) THEN Calls(c) ELSE 0
EvalOutLen(c) == CASE c.kind = "Sum" -> BitsC(c)
                   [] c.kind = "Ternary" -> c.len
                   [] c.kind \in {"Histogram", "Multihot", "L1BoundSum"} -> 2
                   [] OTHER -> 1
OutputLen(c) ==  \* length of the truncated (aggregatable) vector
  CASE c.kind \in {"Count", "Sum", "HigherDegree"} -> 1
    [] OTHER -> c.len
WireLen(c) == NextPow2(1 + Gadget(c).calls)
GPolyLen(c) == Gadget(c).degree * (WireLen(c) - 1) + 1
ProofLen(c) == Gadget(c).arity + GPolyLen(c)
VerifierLen(c) == 2 + Gadget(c).arity
ProveRandLen(c) == Gadget(c).arity
QueryRandLen(c) == 1 + (IF EvalOutLen(c) > 1 THEN EvalOutLen(c) ELSE 0)

\* gadget evaluation on a tuple of field elements
GEval(c, a) ==
  LET g == Gadget(c) IN
  CASE g.g = "Mul" -> Mul(a[1], a[2])
    [] g.g = "Range2" -> Mul(a[1], Sub(a[1], 1))                         \* x(x-1)
    [] g.g = "Range3" -> Mul(Mul(a[1], Sub(a[1], 1)), Sub(a[1], 2))      \* x(x-1)(x-2)
    [] g.g = "ParSum" -> SumSeq([k \in 1..g.chunks |-> Mul(a[2*k-1], a[2*k])])

\* inputs of each gadget call; ns = number of shares the input was split into
CallInputs(c, inp, jr, ns) ==
  CASE c.kind = "Count" -> << <<inp[1], inp[1]>> >>
    [] c.kind = "Sum" -> [k \in 1..Len(inp) |-> <<inp[k]>>]
    [] c.kind = "HigherDegree" -> << <<inp[1]>> >>
    [] c.kind = "Ternary" -> [k \in 1..Len(inp) |-> <<inp[k]>>]
    [] OTHER ->
       LET nsinv == Inv(ns % P)
           n == InputLen(c)
           arg(k, j) == \* j-th multiplication of call k: (r_k^j * x, x - 1/ns); padding (0, -1/ns)
              LET e == (k-1) * c.chunk + j IN
              IF e <= n
              THEN << Mul(Pow(jr[k], j), inp[e]), Sub(inp[e], nsinv) >>
              ELSE << 0, Neg(nsinv) >>
       IN [k \in 1..Calls(c) |->
            [i \in 1..(2*c.chunk) |-> arg(k, (i+1) \div 2)[IF i % 2 = 1 THEN 1 ELSE 2]]]

Chunk(xs, b, i) == SubSeq(xs, (i-1)*b + 1, i*b)    \* i-th block of b elements

\* circuit output given the gadget outputs
Output(c, inp, jr, ns, gout) ==
  CASE c.kind = "Count" -> << Sub(gout[1], inp[1]) >>
    [] c.kind = "Sum" -> gout
    [] c.kind = "HigherDegree" -> gout
    [] c.kind = "Ternary" -> gout
    [] c.kind = "SumVec" -> << SumSeq(gout) >>
    [] c.kind = "Histogram" -> << SumSeq(gout), Sub(SumSeq(inp), Inv(ns % P)) >>
    [] c.kind = "Multihot" ->
         << SumSeq(gout),
            Sub(SumSeq(SubSeq(inp, 1, c.len)), DecodeRC(SubSeq(inp, c.len + 1, Len(inp)), c.maxw)) >>
    [] c.kind = "L1BoundSum" ->
         LET b == Bits(c.max) IN
         << SumSeq(gout),
            Sub(SumSeq([i \in 1..c.len |-> DecodeRC(Chunk(inp, b, i), c.max)]),
                DecodeRC(Chunk(inp, b, c.len + 1), c.max)) >>

\* the circuit evaluated directly (gadget outputs computed by the gadget itself)
Valid(c, inp, jr, ns) ==
  LET ci == CallInputs(c, inp, jr, ns) IN
  Output(c, inp, jr, ns, [k \in 1..Len(ci) |-> GEval(c, ci[k])])

\* wire polynomials (value vectors on the WireLen domain): seed, call inputs, zero padding
Wires(c, seeds, ci) ==
  LET g == Gadget(c)  pw == WireLen(c) IN
  [i \in 1..g.arity |-> [t \in 1..pw |-> IF t = 1 THEN seeds[i]
                                           ELSE IF t - 1 <= g.calls THEN ci[t-1][i] ELSE 0]]
Prove(c, inp, pr, jr) ==
  LET g == Gadget(c)  pw == WireLen(c)  L == GPolyLen(c)  n == NextPow2(L)
      ci == CallInputs(c, inp, jr, 1)
      w == Wires(c, pr, ci)
      dn == Nodes(n)  dw == Nodes(pw)
      gp == [k \in 1..L |-> GEval(c, [i \in 1..g.arity |-> LagEvalRoots(w[i], dn[k])])]
  IN SubSeq(pr, 1, g.arity) \o gp
IsWireRoot(c, r) == Pow(r, WireLen(c)) = 1
Query(c, inp, pf, qr, jr, ns) ==     \* defined when ~IsWireRoot(c, qr[Len(qr)])
  LET g == Gadget(c)  pw == WireLen(c)  L == GPolyLen(c)  n == NextPow2(L)
      dn == Nodes(n)  dw == Nodes(pw)
      gp == SubSeq(pf, g.arity + 1, g.arity + L)
      gx == SubSeq(dn, 1, L)
      gout == [k \in 1..g.calls |-> LagEval(gx, gp, dw[k+1])]   \* gadget outputs are read off the proof
      ci == CallInputs(c, inp, jr, ns)
      out == Output(c, inp, jr, ns, gout)
      r == qr[Len(qr)]
      v == IF EvalOutLen(c) > 1 THEN SumSeq([i \in 1..EvalOutLen(c) |-> Mul(qr[i], out[i])]) ELSE out[1]
      w == Wires(c, pf, ci)
  IN <<v>> \o [i \in 1..g.arity |-> LagEvalRoots(w[i], r)] \o << LagEval(gx, gp, r) >>
Decide(c, vf) ==
  LET g == Gadget(c) IN
  vf[1] = 0 /\ GEval(c, SubSeq(vf, 2, 1 + g.arity)) = vf[2 + g.arity]

-----------------------------------------------------------------------------
\* measurements, encoding, truncation
\* Count: m in {0,1}; Sum: 0..max; SumVec/L1BoundSum: sequences; Histogram: bucket index 0..len-1;
\* Multihot: 0/1 sequence of weight <= maxw; HigherDegree: 0..2
SeqSumInt(s) == LET RECURSIVE go(_)  go(t) == IF t = <<>> THEN 0 ELSE Head(t) + go(Tail(t)) IN go(s)
Encode(c, m) ==
  CASE c.kind = "Count" -> <<m>>
    [] c.kind = "HigherDegree" -> <<m % P>>
    [] c.kind = "Ternary" -> [i \in 1..c.len |-> m[i] % P]
    [] c.kind = "Sum" -> EncodeRC(m, c.max)
    [] c.kind = "SumVec" -> Concat([i \in 1..c.len |-> EncodeRC(m[i], c.max)])
    [] c.kind = "Histogram" -> [i \in 1..c.len |-> IF i = m + 1 THEN 1 ELSE 0]
    [] c.kind = "Multihot" -> m \o EncodeRC(SeqSumInt(m), c.maxw)
    [] c.kind = "L1BoundSum" -> Concat([i \in 1..c.len |-> EncodeRC(m[i], c.max)]) \o EncodeRC(SeqSumInt(m), c.max)
Truncate(c, inp) ==
  CASE c.kind \in {"Count", "Histogram", "HigherDegree", "Ternary"} -> inp
    [] c.kind = "Sum" -> << DecodeRC(inp, c.max) >>
    [] c.kind = "SumVec" -> [i \in 1..c.len |-> DecodeRC(Chunk(inp, Bits(c.max), i), c.max)]
    [] c.kind = "Multihot" -> SubSeq(inp, 1, c.len)
    [] c.kind = "L1BoundSum" -> [i \in 1..c.len |-> DecodeRC(Chunk(inp, Bits(c.max), i), c.max)]
\* the plain contribution of a measurement to the aggregate (as integers, before reduction mod P)
Plain(c, m) ==
  CASE c.kind \in {"Count", "Sum", "HigherDegree"} -> <<m>>
    [] c.kind = "Histogram" -> [i \in 1..c.len |-> IF i = m + 1 THEN 1 ELSE 0]
    [] OTHER -> m
\* a vector is a valid encoding iff it is the encoding of some measurement in range; for the
\* range-checked digit encoding *every* 0/1 digit vector decodes into range, so validity is
\* "all digits 0/1" plus the type's extra relation
IsBits(xs) == \A i \in 1..Len(xs) : xs[i] \in {0, 1}
ValidInput(c, inp) ==
  CASE c.kind = "Count" -> inp[1] \in {0, 1}
    [] c.kind = "HigherDegree" -> inp[1] \in {0, 1, 2}
    [] c.kind = "Ternary" -> \A i \in 1..Len(inp) : inp[i] \in {0, 1, 2}
    [] c.kind \in {"Sum", "SumVec"} -> IsBits(inp)
    [] c.kind = "Histogram" -> IsBits(inp) /\ SumSeq(inp) = 1
    [] c.kind = "Multihot" ->
         IsBits(inp) /\ SumSeq(SubSeq(inp, 1, c.len)) = DecodeRC(SubSeq(inp, c.len + 1, Len(inp)), c.maxw)
    [] c.kind = "L1BoundSum" ->
         LET b == Bits(c.max) IN
         IsBits(inp) /\ SumSeq([i \in 1..c.len |-> DecodeRC(Chunk(inp, b, i), c.max)]) = DecodeRC(Chunk(inp, b, c.len + 1), c.max)
=============================================================================
