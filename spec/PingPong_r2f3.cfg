CONSTANTS R = 2 MaxFaults = 3 MaxSteps = 7
INIT Init
NEXT Next
INVARIANT OutputsCorrect
INVARIANT OrderOK
INVARIANT ReleaseOnlyOnTranscript
INVARIANT SequenceOK
INVARIANT EmitInv
CHECK_DEADLOCK FALSE
