CONSTANTS P = 193 GEN = 125 LOGN = 6
INIT Init
NEXT Next
POSTCONDITION Accepted
CHECK_DEADLOCK FALSE
