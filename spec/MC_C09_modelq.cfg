INIT InitModelQuick
NEXT Next
INVARIANT AlgorithmIsMeaning
CHECK_DEADLOCK FALSE
