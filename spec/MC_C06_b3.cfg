CONSTANTS M = 17 SB = 3 B = 3 MaxHist = 2
INIT Init
NEXT Next
INVARIANT ReconstructsAll
INVARIANT CacheTransparent
INVARIANT CacheSound
CHECK_DEADLOCK FALSE
