CONSTANTS P = 40961 GEN = 243 LOGN = 13 Tier = "thorough"
INIT InitEnc
NEXT Next
INVARIANT EncodeOK
INVARIANT EmitInv
CHECK_DEADLOCK FALSE
