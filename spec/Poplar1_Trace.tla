---------------------------- MODULE Poplar1_Trace ----------------------------
(***************************************************************************)
(* Trace validation of the real Poplar1 (Field64 / Field255, AES-based     *)
(* IDPF, recording XOF for the VDAF-level derivations).  The IDPF output   *)
(* shares are opaque; TLC judges everything around them:                   *)
(*  - the exact XOF queries of every call (what is bound to context,       *)
(*    nonce, aggregator id, level, usage);                                 *)
(*  - message grammars (Codec.tla) and the parts of them that must be      *)
(*    copied verbatim (IDPF keys and seeds in the input shares; the level's *)
(*    A, B shares and the prefix count in the verifier state);             *)
(*  - the arithmetic of the two sketch rounds on the recorded shares       *)
(*    (sums, A*s0 + B [+ s0^2 - s1 - s2], the zero test) through BigNat;    *)
(*  - the unsharded counts against the inputs, and for tampered runs that   *)
(*    any pair of released output shares sums to a zero or one-hot vector.  *)
(***************************************************************************)
EXTENDS Codec, Json, IOUtils, FiniteSets, Poplar1Rounds
Rec == ndJsonDeserialize(IOEnv.TRACEFILE)

SEED == 32
BE(n, k) == [i \in 1..k |-> (n \div (256 ^ (k - i))) % 256]
Dst(usage, ctx) == <<18, 0>> \o BE(6, 4) \o BE(usage, 2) \o ctx
F64 == "Field64"   F255 == "Field255"
LevelField(bits, level) == IF level = bits - 1 THEN F255 ELSE F64
Chunk(bs, sz, i) == SubSeq(bs, (i - 1) * sz + 1, i * sz)
El(bs, f, i) == BytesLE(Chunk(bs, FieldSize(f), i))
PrimeOf(f) == FieldPrime(f)
\* x = y (mod p) for naturals given a witness q with x = y + q*p or y = x + q*p
CongW(x, y, q, f) == BigEq(x, BigAdd(y, BigMul(q, PrimeOf(f)))) \/ BigEq(y, BigAdd(x, BigMul(q, PrimeOf(f))))

VARIABLES l, bits, pending
Init == l = 1 /\ bits = 0 /\ pending = {}

\* corr-randomness A, B shares of `level` inside an encoded input share
ABInShare(sh, level) ==
  IF level = bits - 1 THEN SubSeq(sh, Len(sh) - 63, Len(sh))
  ELSE SubSeq(sh, 16 + SEED + 16 * level + 1, 16 + SEED + 16 * level + 16)

IsPrefixOf(p, a) == Len(p) <= Len(a) /\ \A i \in 1..Len(p) : p[i] = a[i]

EventOK(e) ==
  CASE e.ev = "shard" ->
         LET want == { <<e.rand[3], Dst(1, e.ctx), e.nonce>> }
                     \cup { <<e.rand[j + 1], Dst(u, e.ctx), <<j>> \o e.nonce>> : j \in {0, 1}, u \in {2, 3} }
         IN /\ e.ok = (Len(e.input) = bits)
            /\ e.ok => /\ pending = want
                       /\ Dec(PopPub(bits), e.pub)
                       /\ \A j \in {0, 1} : /\ Dec(PopShare(bits, SEED), e.shares[j + 1])
                                            /\ SubSeq(e.shares[j + 1], 1, 16) = e.idpf_rand[j + 1]            \* the IDPF key is the raw random seed
                                            /\ SubSeq(e.shares[j + 1], 17, 16 + SEED) = e.rand[j + 1]          \* the correlated-randomness seed too
    [] e.ev = "pair" ->       \* C17: same randomness and nonce, two inputs: no byte of either input share changes
         e.shares1 = e.shares2 /\ (e.input1 # e.input2 => e.pub1 # e.pub2)
    [] e.ev = "vinit" ->
         LET f == LevelField(bits, e.level)
             usage == IF e.level < bits - 1 THEN 2 ELSE 3
             want == { <<SubSeq(e.share, 17, 16 + SEED), Dst(usage, e.ctx), <<e.j>> \o e.nonce>>,
                       <<e.key, Dst(4, e.ctx), e.nonce \o BE(e.level, 2)>> }
             sz == FieldSize(f)
         IN /\ e.honest => e.ok
            /\ e.ok => /\ pending = want
                       /\ Dec(PopState, e.state) /\ Dec(PopFieldVec(e.level = bits - 1, 3), e.vshare)
                       /\ e.state[1] = (IF e.level = bits - 1 THEN 1 ELSE 0) /\ e.state[2] = 0
                       /\ SubSeq(e.state, 3, 2 + 2 * sz) = ABInShare(e.share, e.level)       \* this level's A, B shares
                       /\ SubSeq(e.state, 3 + 2 * sz, 6 + 2 * sz) = BE(e.nprefixes, 4)
                       /\ Len(e.state) = 6 + 2 * sz + e.nprefixes * sz
    [] e.ev = "vinit_deep" ->   \* very deep trees: share bytes elided from the event; verdict, state shape and the verification-randomness query
         LET f == LevelField(bits, e.level)  sz == FieldSize(f) IN
         /\ e.honest => e.ok
         /\ e.ok => /\ <<e.key, Dst(4, e.ctx), e.nonce \o BE(e.level, 2)>> \in pending
                    /\ Dec(PopState, e.state) /\ e.state[1] = (IF e.level = bits - 1 THEN 1 ELSE 0)
                    /\ Len(e.state) = 6 + 2 * sz + e.nprefixes * sz
    [] e.ev = "s2m" ->
         LET f == IF e.leaf THEN F255 ELSE F64 IN
         IF e.round = 1
         THEN /\ e.ok /\ Dec(PopMsg(e.leaf, 1), e.msg)
              /\ \A i \in 1..3 : e.carry[i] \in {0, 1}
                                 /\ BigEq(BigAdd(El(e.vshares[1], f, i), El(e.vshares[2], f, i)), BigAdd(El(e.msg, f, i), BigMul(FromInt(e.carry[i]), PrimeOf(f))))
         ELSE \* round two: the report passes iff the two shares sum to zero modulo p
              LET s == BigAdd(El(e.vshares[1], f, 1), El(e.vshares[2], f, 1)) IN
              /\ e.ok = (Norm(s) = <<>> \/ BigEq(s, PrimeOf(f)))
              /\ (e.honest => e.ok)                                   \* completeness: an honest report passes the sketch
              /\ e.ok => e.msg = <<>>
    [] e.ev = "vnext" ->
         LET f == IF e.leaf THEN F255 ELSE F64  sz == FieldSize(f) IN
         IF e.round = 1
         THEN \* A*s0 + B (+ s0^2 - s1 - s2 for the helper) = v  (mod p), with witness q;  2p added to keep naturals
              LET A == El(e.state, f, 1) \* after the 2 tag bytes
                  st == SubSeq(e.state, 3, Len(e.state))
                  As == El(st, f, 1)  Bs == El(st, f, 2)
                  s0 == El(e.msg, f, 1)  s1 == El(e.msg, f, 2)  s2 == El(e.msg, f, 3)
                  base == BigAdd(BigMul(As, s0), Bs)
                  lhs == IF e.j = 1 THEN BigAdd(BigAdd(base, BigMul(s0, s0)), BigMul(<<2>>, PrimeOf(f))) ELSE base
                  rhs == IF e.j = 1 THEN BigAdd(BigAdd(El(e.vshare, f, 1), s1), s2) ELSE El(e.vshare, f, 1)
              IN /\ e.ok /\ e.kind = "continue"
                 /\ BigEq(lhs, BigAdd(rhs, BigMul(e.q, PrimeOf(f)))) /\ BigLt(El(e.vshare, f, 1), PrimeOf(f))
                 /\ Len(e.vshare) = sz
                 /\ e.newstate = <<e.state[1], 1>> \o SubSeq(e.state, 3 + 2 * sz, Len(e.state))    \* round two state keeps count and output share
         ELSE /\ e.ok /\ e.kind = "finish"
              /\ e.out = SubSeq(e.state, 7, Len(e.state))          \* tag, tag, count(4), then the output share
    [] e.ev = "decode_fail" ->   \* the real decoder refused: the total decoder of Codec.tla must refuse too
         (CASE e.what = "pub" -> ~Dec(PopPub(bits), e.bytes)
            [] e.what = "share" -> ~Dec(PopShare(bits, SEED), e.bytes)
            [] e.what = "vshare" -> ~Dec(PopFieldVec(e.leaf, IF e.round = 1 THEN 3 ELSE 1), e.bytes)
            [] e.what = "msg" -> ~Dec(PopMsg(e.leaf, e.round), e.bytes)
            [] OTHER -> FALSE)
    [] e.ev = "aggparam" -> e.ok       \* only refusals are logged: every parameter the driver builds is admissible (1 <= length <= bits <= 2^16)
    [] e.ev = "variant" ->    \* verify_next on every (state variant, message variant) pair: exactly the matching ones progress
         LET want == VerifyNextOK([kind |-> e.skind, round |-> e.sround], [kind |-> e.mkind, body |-> e.mbody]) IN
         /\ e.ok = want
         /\ e.kind = (IF want THEN VerifyNextKind([kind |-> e.skind, round |-> e.sround]) ELSE "err")
    [] e.ev = "combine" ->    \* verifier_shares_to_message on every pair of share variants
         /\ ~e.panic
         /\ e.ok = CombineOK([kind |-> e.kind0, len |-> e.len0], [kind |-> e.kind1, len |-> e.len1])
    [] e.ev = "mismatch" -> ~e.ok      \* state / message variants that do not belong together are refused
    [] e.ev = "result" ->     \* exact prefix counts
         e.counts = [i \in 1..Len(e.prefixes) |-> Cardinality({k \in 1..Len(e.inputs) : IsPrefixOf(e.prefixes[i], e.inputs[k])})]
    [] e.ev = "heavy" ->      \* the iterated threshold rule returns exactly the inputs occurring at least `threshold` times
         LET occ(x) == Cardinality({k \in 1..Len(e.inputs) : e.inputs[k] = x}) IN
         /\ \A i \in 1..Len(e.hitters) : occ(e.hitters[i]) >= e.threshold
         /\ \A k \in 1..Len(e.inputs) : occ(e.inputs[k]) >= e.threshold => \E i \in 1..Len(e.hitters) : e.hitters[i] = e.inputs[k]
    [] e.ev = "outsum" ->     \* C04: whenever both finish, the output shares sum to all zeros or a single one
         LET f == IF e.leaf THEN F255 ELSE F64
             v(i) == BigAdd(El(e.out0, f, i), El(e.out1, f, i))
             isz(i) == Norm(v(i)) = <<>> \/ BigEq(v(i), PrimeOf(f))
             isone(i) == BigEq(v(i), <<1>>) \/ BigEq(v(i), BigAdd(PrimeOf(f), <<1>>))
         IN /\ \A i \in 1..e.n : isz(i) \/ isone(i)
            /\ Cardinality({i \in 1..e.n : isone(i)}) <= 1
    [] e.ev = "attack" ->     \* a constructed malicious (or honest-shaped) report: IDPF programs (y, auth*y + dz), leader's B off by dB
         LET f == IF e.leaf THEN F255 ELSE F64
             wf == DevWellFormed(e.y, e.dz, e.dB)
             v(o, i) == BigAdd(El(o.out0, f, i), El(o.out1, f, i))
             isval(x, c) == \/ (c = 0 /\ (Norm(x) = <<>> \/ BigEq(x, PrimeOf(f))))
                            \/ (c = 1 /\ (BigEq(x, <<1>>) \/ BigEq(x, BigAdd(PrimeOf(f), <<1>>))))
         IN IF wf
            THEN \* accepted for every verification randomness, contributing exactly y at the on-path candidate
                 /\ \A k \in 1..Len(e.accepted) : e.accepted[k]
                 /\ \A k \in 1..Len(e.outs) : \A i \in 1..e.n : isval(v(e.outs[k], i), IF i = e.pos THEN e.y ELSE 0)
            ELSE \* accepted for at most a 2/p fraction of the randomness: refused under at least one of the independent keys
                 \E k \in 1..Len(e.accepted) : ~e.accepted[k]
    [] OTHER -> FALSE

Next ==
  /\ l <= Len(Rec)
  /\ l' = l + 1
  /\ LET e == Rec[l] IN
     CASE e.ev = "begin" -> bits' = e.bits /\ pending' = {}
       [] e.ev = "xof" -> pending' = pending \cup {<<e.seed, e.dst, e.binder>>} /\ UNCHANGED bits
       [] OTHER -> EventOK(e) /\ pending' = {} /\ UNCHANGED bits
Accepted ==
  IF TLCGet("stats").diameter - 1 = Len(Rec) THEN TRUE
  ELSE PrintT(<<"UNMATCHED", TLCGet("stats").diameter, Rec[TLCGet("stats").diameter].ev>>) /\ FALSE
=============================================================================
