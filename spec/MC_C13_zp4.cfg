CONSTANTS M = 0 Shares <- SharesZ Bad <- BadZP Kind = "inner" L = 3 MaxAccs = 2 MaxSteps = 8
INIT Init
NEXT Next
INVARIANT PartialSums
INVARIANT NoDoubleCount
INVARIANT FinalIsSinglePass
INVARIANT EmitInv
CHECK_DEADLOCK FALSE
