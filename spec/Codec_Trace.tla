---------------------------- MODULE Codec_Trace ----------------------------
(***************************************************************************)
(* C08 (and C07 on arbitrary strings): every recorded run of a real        *)
(* decoder on a randomly mutated byte string must agree with the total     *)
(* decoder of Codec.tla: same verdict, no panic, an accepted string        *)
(* re-encodes to itself with the advertised length, and the bytes          *)
(* allocated stay within an envelope linear in the input length plus what  *)
(* the decoding parameter implies.                                         *)
(***************************************************************************)
EXTENDS Codec, Json, IOUtils
Rec == ndJsonDeserialize(IOEnv.TRACEFILE)
VARIABLE l
Init == l = 1
\* "framed" events: the same decoder called on a cursor positioned inside a larger buffer (three bytes in front of the
\* string): it must consume exactly the encoding at the front of the string, or fail, and never panic
FramedOK(e) ==
  LET g == Grammar(e.d)  k == DecLen(g, e.bytes) IN
  /\ ~e.panic
  /\ e.ok = (k >= 0)
  /\ e.ok => (e.consumed = k /\ e.canonical)
EventOK(e) ==
  IF "framed" \in DOMAIN e THEN FramedOK(e) ELSE
  LET g == Grammar(e.d) IN
  /\ ~e.panic
  /\ e.ok = Dec(g, e.bytes)
  /\ e.ok => (e.canonical /\ e.len_ok)
  /\ e.alloc <= 64 * (Len(e.bytes) + Implied(g)) + 16384
  /\ e.micros <= 200000
Next == l <= Len(Rec) /\ EventOK(Rec[l]) /\ l' = l + 1
Accepted ==
  IF TLCGet("stats").diameter - 1 = Len(Rec) THEN TRUE
  ELSE PrintT(<<"UNMATCHED", TLCGet("stats").diameter, Rec[TLCGet("stats").diameter].d.ty>>) /\ FALSE
=============================================================================
