CONSTANTS P = 17 N = 4 VLen = 2 FoldInit = 0 ReduceInit = 0 MaxIdent = 2
INIT Init
NEXT Next
INVARIANT SameAsSerial
INVARIANT Progress
CHECK_DEADLOCK FALSE
