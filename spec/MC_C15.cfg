CONSTANTS D = 8
INIT Init
NEXT Next
INVARIANT Sane
INVARIANT EmitInv
CHECK_DEADLOCK FALSE
