CONSTANTS P = 193 GEN = 125 LOGN = 6 Tier = "thorough"
INIT Init
NEXT Next
INVARIANT Lengths
INVARIANT Completeness
INVARIANT ValidAgrees
INVARIANT Linearity
INVARIANT HonestProofGadgetTest
INVARIANT LagEvalRootsAgrees
INVARIANT EmitInv
CHECK_DEADLOCK FALSE
