CONSTANTS P = 17 GEN = 3 LOGN = 4 Tier = "thorough"
INIT InitExhaustive
NEXT NextExhaustive
INVARIANT Lengths
INVARIANT Completeness
INVARIANT Linearity
INVARIANT HonestProofGadgetTest
INVARIANT LagEvalRootsAgrees
INVARIANT EmitInv
CHECK_DEADLOCK FALSE
