---------------------------- MODULE MC_C07 ----------------------------
(***************************************************************************)
(* C07 / C08: structured enumeration of byte strings for every message     *)
(* type and decoding parameter -- honest-shaped strings, one deviation at  *)
(* a time (non-canonical element, bad tag, bad length prefix, padding bit, *)
(* truncation, extension) -- each with the verdict of the total decoder    *)
(* Codec!Dec.  Replayed on the real decoders: verdict, canonical           *)
(* re-encoding, encoded_len, no panic, bounded allocation.                 *)
(***************************************************************************)
EXTENDS Flp, Codec, Json

\* ---- little-endian bytes of a limb natural, k bytes ----
RECURSIVE LimbBits(_)
LimbBits(s) == IF s = <<>> THEN <<>> ELSE [i \in 1..12 |-> (Head(s) \div (2 ^ (i - 1))) % 2] \o LimbBits(Tail(s))
BigToBytes(s, k) ==
  LET bits == LimbBits(s)  b(i) == IF i <= Len(bits) THEN bits[i] ELSE 0 IN
  [j \in 1..k |-> b(8*j-7) + 2*b(8*j-6) + 4*b(8*j-5) + 8*b(8*j-4) + 16*b(8*j-3) + 32*b(8*j-2) + 64*b(8*j-1) + 128*b(8*j)]
PBytes(f) == BigToBytes(FieldPrime(f), FieldSize(f))
PM1Bytes(f) == BigToBytes(BigSub(FieldPrime(f), <<1>>), FieldSize(f))
OneBytes(f) == [i \in 1..FieldSize(f) |-> IF i = 1 THEN 1 ELSE 0]
ZeroBytes(n) == [i \in 1..n |-> 0]
FFBytes(n) == [i \in 1..n |-> 255]
RECURSIVE CatAll(_)
CatAll(ss) == IF ss = <<>> THEN <<>> ELSE Head(ss) \o CatAll(Tail(ss))
BEn(v, w) == [i \in 1..w |-> (v \div (256 ^ (w - i))) % 256]

\* ---- flatten tags ----
RECURSIVE Expand(_)
Expand(g) ==   \* set of <<flat item sequence, valid?>>
  IF g = <<>> THEN {<<>>}
  ELSE LET it == Head(g) IN
       IF it.k = "tag"
       THEN UNION {{<<[k |-> "const", b |-> t]>> \o p : p \in Expand(it.alts[t] \o Tail(g))} : t \in DOMAIN it.alts}
            \cup {<<[k |-> "const", b |-> 9]>>, <<[k |-> "const", b |-> 255], Bytes(3)>>}        \* unknown tags
       ELSE {<<it>> \o p : p \in Expand(Tail(g))}

ValidItem(it, v) ==
  CASE it.k = "const" -> <<it.b>>
    [] it.k = "bytes" -> IF v = 1 THEN ZeroBytes(it.n) ELSE [i \in 1..it.n |-> (37 * i + 11) % 256]
    [] it.k = "elems" -> IF v = 1 THEN ZeroBytes(it.n * FieldSize(it.f))
                         ELSE CatAll([i \in 1..it.n |-> IF i % 2 = 1 THEN PM1Bytes(it.f) ELSE OneBytes(it.f)])
    [] it.k = "opaque" -> IF v = 1 THEN BEn(0, it.w) ELSE BEn(5, it.w) \o <<1, 2, 3, 4, 5>>
    [] it.k = "items" -> IF v = 1 THEN BEn(0, it.w) ELSE BEn(2 * it.size, it.w) \o [i \in 1..(2 * it.size) |-> i]
    [] it.k = "cbits" -> LET nb == (2 * it.bits + 7) \div 8 IN
                         IF v = 1 THEN ZeroBytes(nb)
                         ELSE [j \in 1..nb |-> IF 8 * j <= 2 * it.bits THEN 255 ELSE (2 ^ (2 * it.bits - 8 * (j - 1))) - 1]
    [] it.k = "counted" -> IF v = 1 THEN BEn(0, 4) ELSE BEn(3, 4) \o ZeroBytes(FieldSize(it.f)) \o OneBytes(it.f) \o PM1Bytes(it.f)
BadItems(it) ==
  CASE it.k = "elems" ->
         IF it.n = 0 THEN {} ELSE
         LET sz == FieldSize(it.f)
             with(pos, chunk) == CatAll([i \in 1..it.n |-> IF i = pos THEN chunk ELSE OneBytes(it.f)])
             \* a small valid element with the top bit of its last byte set (above the modulus for every field whose
             \* modulus is shorter than the encoding; the verdict comes from Dec either way)
             hi == [i \in 1..sz |-> IF i = 1 THEN 1 ELSE IF i = sz THEN 128 ELSE 0]
             hi1 == IF sz = 1 THEN <<129>> ELSE hi
         IN {with(1, PBytes(it.f)), with(it.n, FFBytes(sz)), with((it.n + 1) \div 2, PBytes(it.f)), with(it.n, hi1), with(1, hi1)}
    [] it.k = "opaque" -> {FFBytes(it.w), BEn(6, it.w) \o <<1, 2, 3, 4, 5>>, BEn(1, it.w)}
    [] it.k = "items" -> {FFBytes(it.w), BEn(2 * it.size + 1, it.w) \o [i \in 1..(2 * it.size + 1) |-> i]} \cup (IF it.size > 1 THEN {BEn(1, it.w) \o <<7>>} ELSE {})
    [] it.k = "cbits" -> LET nb == (2 * it.bits + 7) \div 8 IN
                         IF (2 * it.bits) % 8 = 0 THEN {} ELSE {[j \in 1..nb |-> IF j = nb THEN 128 ELSE 0], FFBytes(nb)}
    [] it.k = "counted" -> {FFBytes(4), BEn(2, 4) \o OneBytes(it.f), BEn(1, 4) \o PBytes(it.f), <<0, 1, 0, 0>>, <<1, 0, 0, 0>>}
    [] OTHER -> {}

Strings(g) ==
  UNION { LET base(v) == CatAll([i \in 1..Len(fp) |-> ValidItem(fp[i], v)])
              dev == UNION {{CatAll([k \in 1..Len(fp) |-> IF k = i THEN b ELSE ValidItem(fp[k], 2)]) : b \in BadItems(fp[i])} : i \in 1..Len(fp)}
              muts(s) == {s, s \o <<0>>, s \o <<255, 255>>} \cup (IF s = <<>> THEN {} ELSE {SubSeq(s, 1, Len(s) - 1), SubSeq(s, 2, Len(s)), SubSeq(s, 1, Len(s) \div 2)})
          IN muts(base(1)) \cup muts(base(2)) \cup dev \cup {<<>>}
        : fp \in Expand(g) }

\* ---- instances ----
Circ == { [kind |-> "Count"], [kind |-> "Sum", max |-> 6], [kind |-> "Histogram", len |-> 4, chunk |-> 3],
          [kind |-> "SumVec", max |-> 3, len |-> 2, chunk |-> 3], [kind |-> "Multihot", len |-> 3, maxw |-> 2, chunk |-> 2],
          [kind |-> "L1BoundSum", max |-> 3, len |-> 2, chunk |-> 4] }
P3(ty, f, c, nagg, np, j) == [ty |-> ty, f |-> f, c |-> c, nagg |-> nagg, np |-> np, j |-> j, seed |-> 32,
                              il |-> InputLen(c), pl |-> ProofLen(c), vl |-> VerifierLen(c), ol |-> OutputLen(c), jr |-> JointRandLen(c) > 0]
P3Types == {"prio3_pub", "prio3_share", "prio3_vshare", "prio3_msg", "prio3_state", "prio3_out", "prio3_agg", "prio3_cont"}
Prio3Instances == {P3(ty, f, c, q[1], q[2], j) : ty \in P3Types, f \in {"FieldV17", "FieldV40961", "Field64", "Field128"}, c \in Circ,
                                                  q \in {<<2, 1>>, <<3, 2>>}, j \in {0, 1}}
Basic == {[ty |-> "u8"], [ty |-> "u16"], [ty |-> "u32"], [ty |-> "u64"], [ty |-> "seed", n |-> 16], [ty |-> "seed", n |-> 32]}
         \cup {[ty |-> "field", f |-> f] : f \in {"FieldV17", "FieldV193", "FieldV12289", "FieldV40961", "FieldPrio2", "Field64", "Field128", "Field255"}}
         \cup {[ty |-> "items", w |-> w, size |-> s] : w \in {1, 2, 4}, s \in {1, 2, 4}}
         \cup {[ty |-> "pingpong_msg"]}
Poplar == {[ty |-> "poplar1_pub", bits |-> b, seed |-> 32] : b \in {1, 2, 3, 4, 5, 8, 9}}
          \cup {[ty |-> "poplar1_share", bits |-> b, seed |-> s] : b \in {1, 2, 5}, s \in {16, 32}}
          \cup {[ty |-> "poplar1_state", bits |-> 3, seed |-> 32, j |-> j] : j \in {0, 1}}
          \cup {[ty |-> "poplar1_fieldvec", bits |-> 3, seed |-> 32, leaf |-> lf, n |-> n, ctx |-> cx] : lf \in BOOLEAN, n \in {1, 3}, cx \in {"sketch", "agg"}}
          \cup {[ty |-> "poplar1_msg", bits |-> 3, seed |-> 32, leaf |-> lf, round |-> r] : lf \in BOOLEAN, r \in {1, 2}}
Prio2I == {[ty |-> t, n |-> n, j |-> j] : t \in {"prio2_share", "prio2_state"}, n \in {1, 3, 4, 7}, j \in {0, 1}}
          \cup {[ty |-> t, n |-> n, j |-> 0] : t \in {"prio2_vshare", "prio2_out", "prio2_agg"}, n \in {1, 3, 4}}
Quick == "quick"
CONSTANT Tier
Instances == Basic \cup Poplar \cup Prio2I
             \cup (IF Tier = Quick THEN {d \in Prio3Instances : (d.f \in {"FieldV17", "Field128"} /\ d.nagg = 2) \/ (d.f = "Field64" /\ d.c.kind \in {"Count", "Sum"} /\ d.nagg = 3)
                                                                \/ (d.f = "FieldV40961" /\ d.c.kind = "Histogram")} ELSE Prio3Instances)

VARIABLE st
Init == st \in {[ph |-> "inst", d |-> d] : d \in Instances}
Next == st.ph = "inst" /\ \E s \in Strings(Grammar(st.d)) : st' = [ph |-> "str", d |-> st.d, bytes |-> s, ok |-> Dec(Grammar(st.d), s)]
\* the generator's honest-shaped strings are accepted, so the enumeration is not vacuous
BasesAccepted == st.ph = "inst" =>
   \A fp \in Expand(Grammar(st.d)) : (\A i \in 1..Len(fp) : fp[i].k = "const" => fp[i].b < 9) =>
        Dec(Grammar(st.d), CatAll([i \in 1..Len(fp) |-> ValidItem(fp[i], 2)]))
\* the two decoders of the spec agree: a string is an encoding iff the prefix decoder consumes all of it
DecLenAgrees == st.ph = "str" => (st.ok = (DecLen(Grammar(st.d), st.bytes) = Len(st.bytes)))
EmitInv == st.ph = "str" => PrintT(<<"REPLAY", ToJson([d |-> st.d, bytes |-> st.bytes, ok |-> st.ok, plen |-> DecLen(Grammar(st.d), st.bytes), implied |-> Implied(Grammar(st.d))])>>)
=============================================================================
