---------------------------- MODULE PingPong ----------------------------
EXTENDS Integers, Sequences, FiniteSets, TLC, Json
CONSTANTS R,         \* number of verification rounds of the VDAF
          MaxFaults, \* adversarial deliveries allowed
          MaxSteps
G == <<"G">>                          \* undecodable payload
S(j, r) == <<"S", j, r>>              \* verifier share of aggregator j in round r
M(r, a, b) == <<"M", r, a, b>>        \* verifier message: ordered pair of the shares it was built from
VS(j, r) == <<"VS", j, r>>            \* verifier state
Out(j) == <<"OUT", j>>
GoodM(r) == M(r, S(0, r), S(1, r))
\* ---- the abstract R-round VDAF (order- and round-sensitive) ----
VerifyNext(vs, m) ==                  \* vs = VS(j,r)
  LET j == vs[2]  r == vs[3] IN
  IF m # GoodM(r) THEN [t |-> "err"]
  ELSE IF r + 1 = R THEN [t |-> "finish", out |-> Out(j)]
  ELSE [t |-> "continue", vs |-> VS(j, r+1), share |-> S(j, r+1)]
DecodableShare(x) == x # G /\ x[1] = "S"
DecodableMsg(y) == y # G /\ y[1] = "M"
\* ---- ping-pong messages ----
Initialize(x) == [k |-> "initialize", vs |-> x]
Continue(y, x) == [k |-> "continue", vm |-> y, vs |-> x]
Finish(y) == [k |-> "finish", vm |-> y]
\* evaluate a Transition continuation
Evaluate(c) ==   \* c = [vs, vm]
  LET t == VerifyNext(c.vs, c.vm) IN
  CASE t.t = "err" -> [t |-> "err", e |-> "VdafVerifyNext"]
    [] t.t = "continue" -> [t |-> "continued", vs |-> t.vs, msg |-> Continue(c.vm, t.share)]
    [] t.t = "finish" -> [t |-> "finished_with_outbound", out |-> t.out, msg |-> Finish(c.vm)]
\* helper_initialized: returns continuation or error
HelperInit(m) ==
  IF m.k # "initialize" THEN [t |-> "err", e |-> "PeerMessageMismatch"]
  ELSE IF ~DecodableShare(m.vs) THEN [t |-> "err", e |-> "CodecVerifierShare"]
  ELSE [t |-> "transition", vs |-> VS(1, 0), vm |-> M(0, m.vs, S(1, 0))]
\* {leader,helper}_continued
Continued(isLeader, hostvs, m) ==
  IF m.k = "initialize" THEN [t |-> "err", e |-> "PeerMessageMismatch"]
  ELSE IF ~DecodableMsg(m.vm) THEN [t |-> "err", e |-> "CodecVerifierMessage"]
  ELSE LET tr == VerifyNext(hostvs, m.vm) IN
    IF tr.t = "err" THEN [t |-> "err", e |-> "VdafVerifyNext"]
    ELSE IF tr.t = "continue" /\ m.k = "continue" THEN
         IF ~DecodableShare(m.vs) THEN [t |-> "err", e |-> "CodecVerifierShare"]
         ELSE LET r == tr.vs[3] IN
              [t |-> "transition", vs |-> tr.vs,
               vm |-> IF isLeader THEN M(r, tr.share, m.vs) ELSE M(r, m.vs, tr.share)]
    ELSE IF tr.t = "finish" /\ m.k = "finish" THEN [t |-> "output", out |-> tr.out]
    ELSE [t |-> "err", e |-> "PeerMessageMismatch"]
\* ---- system ----
VARIABLES lst, hst, shares, msgs, lastL, lastH, faults, hist
vars == <<lst, hst, shares, msgs, lastL, lastH, faults, hist>>
None == [k |-> "none"]
Init == /\ lst = [t |-> "start"] /\ hst = [t |-> "start"]
        /\ shares = {} /\ msgs = {} /\ lastL = None /\ lastH = None /\ faults = 0 /\ hist = <<>>
Pool == {Initialize(x) : x \in shares \cup {G}}
        \cup {Continue(y, x) : y \in msgs \cup {G}, x \in shares \cup {G}}
        \cup {Finish(y) : y \in msgs \cup {G}}
Learn(m) == /\ shares' = shares \cup (IF m.k \in {"initialize", "continue"} THEN {m.vs} ELSE {})
            /\ msgs' = msgs \cup (IF m.k \in {"continue", "finish"} THEN {m.vm} ELSE {})
LInit ==
  /\ lst.t = "start"
  /\ lst' = [t |-> "cont", vs |-> VS(0, 0)]
  /\ lastL' = Initialize(S(0, 0))
  /\ Learn(Initialize(S(0, 0)))
  /\ hist' = Append(hist, [a |-> "linit", res |-> [t |-> "continued", msg |-> Initialize(S(0,0))]])
  /\ UNCHANGED <<hst, lastH, faults>>
\* apply a continuation result to a party
Apply(c) == IF c.t = "transition" THEN Evaluate(c) ELSE c
Deliver(toLeader, m) ==
  LET honest == IF toLeader THEN m = lastH ELSE m = lastL
      st == IF toLeader THEN lst ELSE hst
      c == IF toLeader THEN Continued(TRUE, st.vs, m)
           ELSE IF st.t = "start" THEN HelperInit(m) ELSE Continued(FALSE, st.vs, m)
      res == Apply(c)
      st2 == CASE res.t = "err" -> st
               [] res.t = "continued" -> [t |-> "cont", vs |-> res.vs]
               [] res.t = "finished_with_outbound" -> [t |-> "done", out |-> res.out]
               [] res.t = "output" -> [t |-> "done", out |-> res.out]
      out == IF res.t \in {"continued", "finished_with_outbound"} THEN res.msg ELSE None
  IN /\ (IF toLeader THEN lst.t = "cont" ELSE hst.t \in {"start", "cont"})
     /\ m \in Pool
     /\ faults' = IF honest THEN faults ELSE faults + 1
     /\ faults' <= MaxFaults
     /\ IF toLeader THEN lst' = st2 /\ UNCHANGED hst ELSE hst' = st2 /\ UNCHANGED lst
     /\ IF out # None
        THEN (IF toLeader THEN lastL' = out /\ UNCHANGED lastH ELSE lastH' = out /\ UNCHANGED lastL) /\ Learn(out)
        ELSE UNCHANGED <<lastL, lastH, shares, msgs>>
     /\ hist' = Append(hist, [a |-> IF toLeader THEN "ldeliver" ELSE "hdeliver", m |-> m, honest |-> honest,
                              cont |-> c, res |-> res])
Next == /\ Len(hist) < MaxSteps
        /\ (LInit \/ \E m \in Pool : Deliver(TRUE, m) \/ Deliver(FALSE, m))
Spec == Init /\ [][Next]_vars
\* ---- properties ----
HonestSoFar == faults = 0
\* an output share is released only with the correct value, and (safety) only after the whole honest transcript
OutputsCorrect == /\ lst.t = "done" => lst.out = Out(0)
                  /\ hst.t = "done" => hst.out = Out(1)
\* every verifier message ever put on the wire carries shares in aggregator order
OrderOK == \A y \in msgs : y # G => y[3][2] = 0 /\ y[4][2] = 1
\* A party that finished has processed exactly the honest transcript: R verifier messages
\* GoodM(0..R-1), i.e. the adversary cannot make a party release an output share on anything else.
\* (msgs accumulates everything honest parties ever sent.)
ReleaseOnlyOnTranscript ==
  (lst.t = "done" \/ hst.t = "done") => \A r \in 0..(R - 1) : GoodM(r) \in msgs
\* The messages honest parties put on the wire follow initialize, continue^(R-1), finish with
\* alternating senders: the leader only ever sends Initialize or Continue/Finish for even... i.e.
\* a message carrying verifier message of round r is sent by the helper iff r is even.
SenderOf(h) == IF h.a = "hdeliver" THEN "helper" ELSE "leader"
SequenceOK ==
  \A i \in 1..Len(hist) :
    LET h == hist[i] IN
    (h.a # "linit" /\ h.res.t \in {"continued", "finished_with_outbound"}) =>
      LET m == h.res.msg  r == m.vm[2] IN
      /\ m.vm = GoodM(r)
      /\ (SenderOf(h) = "helper") = (r % 2 = 0)
      /\ (m.k = "finish") = (r = R - 1)
      /\ m.k = "continue" => m.vs = S(IF SenderOf(h) = "helper" THEN 1 ELSE 0, r + 1)
Terminal == Len(hist) = MaxSteps \/ (lst.t = "done" /\ hst.t = "done")
EmitInv == Terminal => PrintT(<<"REPLAY", ToJson(hist)>>)
\* liveness-ish sanity for vacuity: the honest run finishes in exactly R+1 deliveries + init
=============================================================================
