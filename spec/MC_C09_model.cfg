INIT InitModel
NEXT Next
INVARIANT AlgorithmIsMeaning
CHECK_DEADLOCK FALSE
