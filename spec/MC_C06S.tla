---------------------------- MODULE MC_C06S ----------------------------
(* evaluation histories for the C06 binding: every sequence of up to MaxHist evaluations, by either *)
(* party, of any prefix of any length, for every input -- executed on the real Idpf with recording caches *)
EXTENDS Integers, Sequences, TLC, Json
CONSTANTS B, MaxHist
BitStrings(n) == [1..n -> {0, 1}]
Prefixes == UNION {BitStrings(n) : n \in 1..B}
VARIABLE sc
ScriptsOfLen(n) == [1..n -> {0, 1} \X Prefixes]
InitScripts == sc \in UNION {{[B |-> B, alpha |-> a, evals |-> e] : a \in BitStrings(B), e \in ScriptsOfLen(n)} : n \in 1..MaxHist}
NextScripts == UNCHANGED sc
EmitScripts == PrintT(<<"REPLAY", ToJson(sc)>>)
=============================================================================
