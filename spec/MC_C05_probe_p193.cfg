CONSTANTS P = 193 GEN = 125 LOGN = 6 Tier = "thorough"
INIT InitProbe
NEXT Next
INVARIANT EmitInv
CHECK_DEADLOCK FALSE
