CONSTANTS B = 2 MaxHist = 3 Mode = "hist"
INIT InitHist
NEXT NextHist
INVARIANT RuleSane
INVARIANT EmitInv
CHECK_DEADLOCK FALSE
