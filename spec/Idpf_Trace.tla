---------------------------- MODULE Idpf_Trace ----------------------------
(***************************************************************************)
(* C06 binding: evaluation histories executed on the real Idpf with a      *)
(* recording wrapper around the real caches (public IdpfCache trait).      *)
(*  - every cache hit returns exactly the node state last stored under     *)
(*    that prefix (a miss is always allowed: caches may evict or forget);   *)
(*  - every evaluation equals the cache-free evaluation of the same prefix; *)
(*  - the two parties' shares add up to the programmed value on the input's *)
(*    path and to zero elsewhere (integer witnesses, BigNat).               *)
(***************************************************************************)
EXTENDS BigNat, TLC, Json, IOUtils
Rec == ndJsonDeserialize(IOEnv.TRACEFILE)

Prime(f) ==
  CASE f = "Field64"  -> BigAdd(BigSub(Pow2Big(64), Pow2Big(32)), <<1>>)
    [] f = "Field255" -> BigSub(Pow2Big(255), <<19>>)
    [] f = "FieldV17" -> <<17>>
ESize(f) == CASE f = "Field64" -> 8 [] f = "Field255" -> 32 [] f = "FieldV17" -> 1
IsPrefix(p, a) == Len(p) <= Len(a) /\ \A i \in 1..Len(p) : p[i] = a[i]

VARIABLES l, inst, ghost, ref
\* inst: [bits, alpha, betas (per level: sequence of small ints, one per element), finner, fleaf, k (elements per value)]
\* ghost[<<agg, cache>>] : prefix -> node state ;  ref[<<agg, prefix>>] : bytes of the cache-free share
Init == l = 1 /\ inst = [bits |-> 0] /\ ghost = << >> /\ ref = << >>

Elem(bs, f, i) == BytesLE(SubSeq(bs, (i - 1) * ESize(f) + 1, i * ESize(f)))
Next ==
  /\ l <= Len(Rec)
  /\ l' = l + 1
  /\ LET e == Rec[l] IN
     CASE e.ev = "begin" -> inst' = e /\ ghost' = << >> /\ ref' = << >>
       [] e.ev = "ref" ->    \* cache-free evaluation; repeated evaluations must agree
            LET k == <<e.agg, e.prefix>> IN
            /\ (k \in DOMAIN ref => ref[k] = e.out)
            /\ ref' = [kk \in DOMAIN ref \cup {k} |-> IF kk = k THEN e.out ELSE ref[kk]]
            /\ UNCHANGED <<inst, ghost>>
       [] e.ev = "cins" ->
            LET c == <<e.agg, e.cache>>
                old == IF c \in DOMAIN ghost THEN ghost[c] ELSE << >>
                new == [q \in DOMAIN old \cup {e.key} |-> IF q = e.key THEN e.val ELSE old[q]]
            IN \* a node state never changes for a given prefix: re-insertion must carry the same state
               /\ (e.key \in DOMAIN old => old[e.key] = e.val)
               /\ ghost' = [cc \in DOMAIN ghost \cup {c} |-> IF cc = c THEN new ELSE ghost[cc]]
               /\ UNCHANGED <<inst, ref>>
       [] e.ev = "cget" ->
            LET c == <<e.agg, e.cache>> IN
            /\ e.hit => (c \in DOMAIN ghost /\ e.key \in DOMAIN ghost[c] /\ ghost[c][e.key] = e.val)
            /\ UNCHANGED <<inst, ghost, ref>>
       [] e.ev = "eval" ->   \* through a cache: must equal the cache-free share
            /\ e.ok
            /\ <<e.agg, e.prefix>> \in DOMAIN ref /\ ref[<<e.agg, e.prefix>>] = e.out
            /\ UNCHANGED <<inst, ghost, ref>>
       [] e.ev = "recon" ->  \* share0 + share1 = programmed value (on the path) or 0, element-wise, mod p
            LET lvl == Len(e.prefix)
                f == IF lvl = inst.bits THEN inst.fleaf ELSE inst.finner
                want(i) == IF IsPrefix(e.prefix, inst.alpha) THEN FromInt(inst.betas[lvl][i]) ELSE <<>>
                s0 == ref[<<0, e.prefix>>]  s1 == ref[<<1, e.prefix>>]
            IN /\ <<0, e.prefix>> \in DOMAIN ref /\ <<1, e.prefix>> \in DOMAIN ref
               /\ Len(s0) = inst.k * ESize(f) /\ Len(s1) = inst.k * ESize(f)
               /\ \A i \in 1..inst.k :
                     /\ e.carry[i] \in {0, 1}
                     /\ BigEq(BigAdd(Elem(s0, f, i), Elem(s1, f, i)), BigAdd(want(i), BigMul(FromInt(e.carry[i]), Prime(f))))
                     /\ BigLt(Elem(s0, f, i), Prime(f)) /\ BigLt(Elem(s1, f, i), Prime(f))
               /\ UNCHANGED <<inst, ghost, ref>>
       [] e.ev = "err" ->    \* evaluations outside the domain are refused: empty prefix, prefix longer than the tree, aggregator id > 1
            /\ (Len(e.prefix) = 0 \/ Len(e.prefix) > inst.bits \/ e.agg > 1)
            /\ UNCHANGED <<inst, ghost, ref>>
       [] OTHER -> FALSE
Accepted ==
  IF TLCGet("stats").diameter - 1 = Len(Rec) THEN TRUE
  ELSE PrintT(<<"UNMATCHED", TLCGet("stats").diameter, Rec[TLCGet("stats").diameter].ev>>) /\ FALSE
=============================================================================
