CONSTANTS B = 2 MaxHist = 3
INIT InitScripts
NEXT NextScripts
INVARIANT EmitScripts
CHECK_DEADLOCK FALSE
