---------------------------- MODULE AggParam ----------------------------
(***************************************************************************)
(* Aggregation parameters and their admissibility (draft-irtf-cfrg-vdaf    *)
(* section 8.2.5 "is_valid" and 8.2.6.6 encoding).                          *)
(* A Poplar1 parameter is [level, prefixes]: prefixes is a non-empty,       *)
(* strictly increasing (lexicographic) sequence of bit strings of length    *)
(* level+1.  Prio3 / Prio2 have the trivial parameter and single use.       *)
(***************************************************************************)
EXTENDS Integers, Sequences, FiniteSets

RECURSIVE LexLess(_, _)
LexLess(a, b) ==   \* strict lexicographic order on equal-length bit strings
  IF a = <<>> \/ b = <<>> THEN FALSE
  ELSE IF Head(a) # Head(b) THEN Head(a) < Head(b) ELSE LexLess(Tail(a), Tail(b))

Prefix(p, level) == SubSeq(p, 1, level + 1)
ToSet(s) == {s[i] : i \in 1..Len(s)}

\* what a prefix list must satisfy to be a parameter
WellFormed(ps) ==
  /\ Len(ps) >= 1
  /\ Len(ps[1]) >= 1
  /\ Len(ps[1]) <= 65536
  /\ \A i \in 1..Len(ps) : Len(ps[i]) = Len(ps[1])
  /\ \A i \in 1..(Len(ps) - 1) : LexLess(ps[i], ps[i + 1])
MkParam(ps) == [level |-> Len(ps[1]) - 1, prefixes |-> ps]

\* admissibility given the parameters already used with the same report (oldest first)
IsValid(cur, prev) ==
  \/ prev = <<>>
  \/ LET last == prev[Len(prev)] IN
     /\ cur.level > last.level
     /\ \A i \in 1..Len(cur.prefixes) : Prefix(cur.prefixes[i], last.level) \in ToSet(last.prefixes)
\* Prio3 / Prio2
IsValidSingleUse(prev) == prev = <<>>

\* deliberately wrong variants, used only to show the explored histories tell them apart
IsValidFirst(cur, prev) ==
  prev = <<>> \/ (cur.level > prev[1].level /\ \A i \in 1..Len(cur.prefixes) : Prefix(cur.prefixes[i], prev[1].level) \in ToSet(prev[1].prefixes))
IsValidSome(cur, prev) ==
  prev = <<>> \/ LET last == prev[Len(prev)] IN
                 cur.level > last.level /\ \E i \in 1..Len(cur.prefixes) : Prefix(cur.prefixes[i], last.level) \in ToSet(last.prefixes)
IsValidGeq(cur, prev) ==
  prev = <<>> \/ LET last == prev[Len(prev)] IN
                 cur.level >= last.level /\ \A i \in 1..Len(cur.prefixes) : Prefix(cur.prefixes[i], last.level) \in ToSet(last.prefixes)

-----------------------------------------------------------------------------
\* wire encoding: BE16(level), BE32(count), count * ceil((level+1)/8) bytes, bits MSB first,
\* padding bits zero
BE(n, k) == [i \in 1..k |-> (n \div (256 ^ (k - i))) % 256]
PrefixBytes(level) == (level + 1 + 7) \div 8
BitAt(bytes, i) == (bytes[((i - 1) \div 8) + 1] \div (2 ^ (7 - ((i - 1) % 8)))) % 2     \* i-th bit, 1-based, MSB first
PackBits(p) == [k \in 1..((Len(p) + 7) \div 8) |->
                  LET bit(j) == IF 8 * (k - 1) + j <= Len(p) THEN p[8 * (k - 1) + j] ELSE 0 IN
                  128 * bit(1) + 64 * bit(2) + 32 * bit(3) + 16 * bit(4) + 8 * bit(5) + 4 * bit(6) + 2 * bit(7) + bit(8)]
RECURSIVE ConcatAll(_)
ConcatAll(ss) == IF ss = <<>> THEN <<>> ELSE Head(ss) \o ConcatAll(Tail(ss))
EncParam(a) == BE(a.level, 2) \o BE(Len(a.prefixes), 4) \o ConcatAll([i \in 1..Len(a.prefixes) |-> PackBits(a.prefixes[i])])

\* total decoder: <<TRUE, param>> or <<FALSE>>; exact-length input (no trailing bytes)
DecParam(bs) ==
  IF Len(bs) < 6 THEN <<FALSE>>
  ELSE LET level == 256 * bs[1] + bs[2]
           hi == 256 * bs[3] + bs[4]                       \* count = hi * 65536 + lo
           lo == 256 * bs[5] + bs[6]
           w == PrefixBytes(level)
           body == Len(bs) - 6
       IN IF hi # 0 \/ lo > body \/ lo * w # body THEN <<FALSE>>   \* a count of 2^16 or more cannot be backed by the (short) inputs explored
          ELSE LET pre(i) == LET chunk == SubSeq(bs, 6 + (i - 1) * w + 1, 6 + i * w) IN
                             [j \in 1..(level + 1) |-> BitAt(chunk, j)]
                   padOK(i) == LET chunk == SubSeq(bs, 6 + (i - 1) * w + 1, 6 + i * w) IN
                               \A j \in (level + 2)..(8 * w) : BitAt(chunk, j) = 0
                   ps == [i \in 1..lo |-> pre(i)]
               IN IF (\A i \in 1..lo : padOK(i)) /\ WellFormed(ps) THEN <<TRUE, MkParam(ps)>> ELSE <<FALSE>>
=============================================================================
