---------------------------- MODULE Idpf ----------------------------
(***************************************************************************)
(* Incremental distributed point function of draft-irtf-cfrg-vdaf-18       *)
(* section 8.3 (BBCGGI21), over Z_M values and an ABSTRACT pseudorandom    *)
(* generator: Extend and Convert are arbitrary functions on a small seed   *)
(* space, given as tables -- the reconstruction identity must hold for     *)
(* every PRG, so the model checker is free to pick any tables.             *)
(*                                                                         *)
(* Seeds are 0..(2^SB - 1), xor is bitwise; control bits are 0/1.          *)
(***************************************************************************)
EXTENDS Integers, Sequences, FiniteSets
CONSTANTS M,      \* values live in Z_M
          SB      \* seed bits

SeedSpace == 0..(2 ^ SB - 1)
RECURSIVE XorN(_, _, _)
XorN(a, b, k) == IF k = 0 THEN 0 ELSE (((a % 2) + (b % 2)) % 2) + 2 * XorN(a \div 2, b \div 2, k - 1)
Xor(a, b) == XorN(a, b, SB)
XorBit(a, b) == (a + b) % 2
Neg(v) == (M - v) % M
CondNeg(c, v) == IF c = 1 THEN Neg(v) ELSE v

\* A PRG is a record [ext, conv]:  ext[level][s] = [sl, tl, sr, tr],  conv[level][s] = [s, w]
\* (the real PRG is keyed per level kind; indexing by level is more general)
ExtendP(G, level, s) == G.ext[level][s]
ConvertP(G, level, s) == G.conv[level][s]

\* Key generation for input alpha (bit sequence), programmed values beta[level], initial seeds k0, k1.
\* Returns the sequence of correction words [s, tl, tr, w].
RECURSIVE GenFrom(_, _, _, _, _, _, _, _)
GenFrom(G, alpha, beta, level, s0, s1, t0, t1) ==
  IF level > Len(alpha) THEN <<>>
  ELSE
  LET a == alpha[level]
      e0 == ExtendP(G, level, s0)  e1 == ExtendP(G, level, s1)
      \* keep = a, lose = 1 - a
      lose0 == IF a = 0 THEN e0.sr ELSE e0.sl      lose1 == IF a = 0 THEN e1.sr ELSE e1.sl
      scw == Xor(lose0, lose1)
      tcwl == XorBit(XorBit(XorBit(e0.tl, e1.tl), a), 1)
      tcwr == XorBit(XorBit(e0.tr, e1.tr), a)
      tcwkeep == IF a = 0 THEN tcwl ELSE tcwr
      keep0s == IF a = 0 THEN e0.sl ELSE e0.sr     keep1s == IF a = 0 THEN e1.sl ELSE e1.sr
      keep0t == IF a = 0 THEN e0.tl ELSE e0.tr     keep1t == IF a = 0 THEN e1.tl ELSE e1.tr
      nt0 == XorBit(keep0t, t0 * tcwkeep)          nt1 == XorBit(keep1t, t1 * tcwkeep)
      c0 == ConvertP(G, level, IF t0 = 1 THEN Xor(keep0s, scw) ELSE keep0s)
      c1 == ConvertP(G, level, IF t1 = 1 THEN Xor(keep1s, scw) ELSE keep1s)
      wcw == CondNeg(nt1, (beta[level] + Neg(c0.w) + c1.w) % M)
  IN <<[s |-> scw, tl |-> tcwl, tr |-> tcwr, w |-> wcw]>> \o GenFrom(G, alpha, beta, level + 1, c0.s, c1.s, nt0, nt1)
Gen(G, alpha, beta, k0, k1) == GenFrom(G, alpha, beta, 1, k0, k1, 0, 1)

\* One evaluation step of party b (0 = leader) from node state (s, t) along bit x; returns [s, t, y]
EvalNext(G, b, cw, level, s, t, x) ==
  LET e == ExtendP(G, level, s)
      sl == IF t = 1 THEN Xor(e.sl, cw.s) ELSE e.sl      tl == XorBit(e.tl, cw.tl * t)
      sr == IF t = 1 THEN Xor(e.sr, cw.s) ELSE e.sr      tr == XorBit(e.tr, cw.tr * t)
      ns == IF x = 0 THEN sl ELSE sr     nt == IF x = 0 THEN tl ELSE tr
      c == ConvertP(G, level, ns)
      y == CondNeg(b, (c.w + (IF nt = 1 THEN cw.w ELSE 0)) % M)
  IN [s |-> c.s, t |-> nt, y |-> y]
\* walk from node state `st` at depth `from` (number of bits already consumed) to the end of prefix
RECURSIVE EvalFrom(_, _, _, _, _, _)
EvalFrom(G, b, cws, prefix, from, st) ==
  IF from = Len(prefix) THEN st
  ELSE EvalFrom(G, b, cws, prefix, from + 1, EvalNext(G, b, cws[from + 1], from + 1, st.s, st.t, prefix[from + 1]))
Root(b, key) == [s |-> key, t |-> b, y |-> 0]
Eval(G, b, cws, key, prefix) == EvalFrom(G, b, cws, prefix, 0, Root(b, key))

IsPrefix(p, alpha) == Len(p) <= Len(alpha) /\ \A i \in 1..Len(p) : p[i] = alpha[i]
\* C06: the two shares reconstruct the point function at every level
Reconstructs(G, alpha, beta, k0, k1, prefix) ==
  LET cws == Gen(G, alpha, beta, k0, k1)
      y0 == Eval(G, 0, cws, k0, prefix).y   y1 == Eval(G, 1, cws, k1, prefix).y
  IN (y0 + y1) % M = (IF IsPrefix(prefix, alpha) THEN beta[Len(prefix)] ELSE 0)
=============================================================================
