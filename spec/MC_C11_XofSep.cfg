INIT InitXofSep
NEXT Next
INVARIANT ScriptSane
INVARIANT EmitInv
CHECK_DEADLOCK FALSE
