---------------------------- MODULE MC_C10 ----------------------------
(* C10: expected outputs of every NTT / Lagrange routine on a basis of the input space (the     *)
(* routines are linear), plus patterns, for all power-of-two sizes up to MaxLog; and the        *)
(* size/capacity verdict table.  Replayed on the real routines through hook H2.                 *)
EXTENDS Ntt, Json
CONSTANTS MaxLog,   \* sizes 2^0 .. 2^MaxLog
          Basis     \* "all" | "some": every unit vector or 8 of them plus patterns

Sizes == {Pow2(k) : k \in 0..MaxLog}
Unit(n, k) == [i \in 1..n |-> IF i = k THEN 1 ELSE 0]
Pat(n, a, b) == [i \in 1..n |-> (a * i + b) % P]
Ks(n) == IF Basis = "all" \/ n <= 8 THEN 1..n ELSE {1, 2, 3, n \div 2, n \div 2 + 1, n - 2, n - 1, n}
Vectors(n) == {Unit(n, k) : k \in Ks(n)} \cup {Pat(n, 3, 5), Pat(n, 0, P - 1)}
Points(n) == {0, 1, 2, P - 1, 5} \cup {Nodes(n)[i] : i \in (IF n <= 8 THEN 1..n ELSE {1, 2, n \div 2 + 1, n})} \cup (IF 2 * n <= Pow2(LOGN) THEN {RootN(2 * n)} ELSE {})

VARIABLE st
Init == st \in [op : {"ntt", "ntt_s", "ntt_inv", "ntt_short", "inv_short", "eval", "extend", "double", "mul", "roots", "inv_roundtrip"}, n : Sizes]
           \cup {[op |-> "range", n |-> 1], [op |-> "verdicts", n |-> 1]}
Tasks(s) ==
  LET n == s.n IN
  CASE s.op = "ntt" -> {[op |-> "ntt", n |-> n, inp |-> v, sets |-> FALSE, out |-> NttDef(v, n, FALSE)] : v \in Vectors(n)}
    [] s.op = "ntt_s" -> IF 2 * n > Pow2(LOGN) THEN {} ELSE {[op |-> "ntt", n |-> n, inp |-> v, sets |-> TRUE, out |-> NttDef(v, n, TRUE)] : v \in Vectors(n)}
    [] s.op = "ntt_short" ->  \* inputs shorter and longer than the transform size
         {[op |-> "ntt", n |-> n, inp |-> v, sets |-> FALSE, out |-> NttDef(v, n, FALSE)] :
              v \in {Pat(m, 2, 1) : m \in {k \in {1, n \div 2, n - 1, n + 1, 2 * n} : k >= 1}}}
    [] s.op = "inv_short" ->  \* the inverse transform of inputs shorter (zero-padded) and longer (cut) than the transform size
         {[op |-> "ntt_inv", n |-> n, inp |-> v, out |-> NttInvDef(v, n)] :
              v \in {Pat(m, 2, 1) : m \in {k \in {1, n \div 2, n - 1, n + 1, 2 * n} : k >= 1}} \cup {Unit(m, m) : m \in {k \in {1, n \div 2, n - 1} : k >= 1}}}
    [] s.op = "ntt_inv" -> {[op |-> "ntt_inv", n |-> n, inp |-> v, out |-> NttInvDef(v, n)] : v \in Vectors(n)}
    [] s.op = "inv_roundtrip" -> {[op |-> "ntt_inv", n |-> n, inp |-> NttDef(v, n, FALSE), out |-> v] : v \in {Pat(n, 3, 5), Pat(n, 7, 1)}}
    [] s.op = "eval" -> {[op |-> "eval", n |-> n, polys |-> <<v, Pat(n, 1, 2)>>, x |-> x, out |-> <<LagrangeEval(v, x), LagrangeEval(Pat(n, 1, 2), x)>>] :
                             v \in Vectors(n), x \in Points(n)}
    [] s.op = "extend" -> {[op |-> "extend", n |-> n, num |-> m, vals |-> Pat(n, 3, 5), out |-> ExtendDef(Pat(n, 3, 5), m, n)] : m \in (IF n <= 16 THEN 1..n ELSE {1, 2, n \div 2, n \div 2 + 1, n - 1, n})}
                          \cup {[op |-> "extend", n |-> n, num |-> (n \div 2) + 1, vals |-> Unit(n, k), out |-> ExtendDef(Unit(n, k), (n \div 2) + 1, n)] : k \in 1..((n \div 2) + 1)}
    [] s.op = "double" -> IF 2 * n > Pow2(LOGN) THEN {} ELSE {[op |-> "double", n |-> n, evals |-> v, out |-> DoubleDef(v)] : v \in Vectors(n)}
    [] s.op = "mul" -> IF 2 * n > Pow2(LOGN) THEN {} ELSE
                       {[op |-> "mul", n |-> n, f |-> Unit(n, a), g |-> Unit(n, b), out |-> MulLagrangeDef(Unit(n, a), Unit(n, b))] : a \in Ks(n) \cap 1..4, b \in Ks(n)}
                       \cup {[op |-> "mul", n |-> n, f |-> Pat(n, 3, 5), g |-> Pat(n, 1, 2), out |-> MulLagrangeDef(Pat(n, 3, 5), Pat(n, 1, 2))]}
    [] s.op = "roots" -> {[op |-> "roots", n |-> n, out |-> Nodes(n)]}
    [] s.op = "range" -> {[op |-> "range", n |-> 1, start |-> a, end |-> b, out |-> RangeCheckDef(a, b)] : a \in 0..3, b \in 0..6}
    [] s.op = "verdicts" ->
         {t \in {[op |-> "verdict_ntt", n |-> sz, outlen |-> ol, sets |-> ss, out |-> NttVerdict(ol, sz, ss)] :
              sz \in {1, 2, 3, 4, 5, 6, 7, 8, 12, 16}, ol \in {1, 2, 4, 7, 8, 16}, ss \in {TRUE, FALSE}} : ~(t.sets /\ 2 * t.n > Pow2(LOGN))}
         \cup {[op |-> "verdict_double", n |-> sz, outlen |-> ol, out |-> DoubleVerdict(ol, sz)] : sz \in {1, 2, 3, 4, 6, 8}, ol \in {1, 2, 3, 4, 8, 12, 16}}
\* size / capacity boundaries of the deployed fields (verdicts only)
BigSizes == {Pow2(19) - 1, Pow2(19), Pow2(19) + 1, Pow2(20) - 1, Pow2(20), Pow2(20) + 1, Pow2(21), 3, 1, 0 + 2}
\* doubling / Lagrange multiplication of n evaluations into 2n at the capacity boundary (n = 2^19 is the largest supported size);
\* the evaluations of a constant polynomial double to the same constant, whatever the size
InitBig == st \in {[op |-> "verdict_big", n |-> sz, outlen |-> sz - d, sets |-> ss, out |-> NttVerdict(sz - d, sz, ss)] : sz \in BigSizes, d \in {0, 1}, ss \in {TRUE, FALSE}}
                 \cup {[op |-> "verdict_double_big", n |-> sz, outlen |-> 2 * sz, sets |-> FALSE, out |-> DoubleVerdict(2 * sz, sz)] :
                          sz \in {Pow2(17), Pow2(18), Pow2(19), Pow2(20)}}
                 \cup {[op |-> "verdict_double_big", n |-> Pow2(19), outlen |-> Pow2(20) - 1, sets |-> FALSE, out |-> DoubleVerdict(Pow2(20) - 1, Pow2(19))]}
Next == "inp" \notin DOMAIN st /\ "out" \notin DOMAIN st /\ st' \in Tasks(st)

\* the definitions are mutually consistent (guards the oracle): inverse undoes forward; the forward
\* transform is evaluation on the nodes; doubling agrees with extension
DefsSane ==
  ("out" \in DOMAIN st /\ st.op = "ntt" /\ ~st.sets /\ Len(st.inp) = st.n) =>
     /\ NttInvDef(st.out, st.n) = st.inp
     /\ \A i \in 1..st.n : st.out[i] = Horner(st.inp, Nodes(st.n)[i])
EmitInv == "out" \in DOMAIN st => PrintT(<<"REPLAY", ToJson([p |-> P] @@ st)>>)
=============================================================================
