CONSTANTS P = 17 GEN = 3 LOGN = 4 MaxDim = 3
INIT Init
NEXT Next
INVARIANT Complete
INVARIANT Sound
INVARIANT Tamper
INVARIANT Safety
INVARIANT ProofLen
CHECK_DEADLOCK FALSE
