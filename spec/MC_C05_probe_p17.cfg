CONSTANTS P = 17 GEN = 3 LOGN = 4 Tier = "thorough"
INIT InitProbe
NEXT Next
INVARIANT EmitInv
CHECK_DEADLOCK FALSE
