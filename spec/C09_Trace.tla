------------------------------ MODULE C09_Trace ------------------------------
(***************************************************************************)
(* C09, deployed fields: trace validation with arithmetic witnesses.       *)
(* Every event carries natural-number operands/results of a public field   *)
(* operation on FieldPrio2 / Field64 / Field128 / Field255 (as limb        *)
(* sequences) plus a quotient witness; TLC decides the defining identity   *)
(* modulo the field prime.  A wrong result cannot be accepted whatever the *)
(* witness says, since the identity is over the integers.                  *)
(***************************************************************************)
EXTENDS BigNat, TLC, Json, IOUtils

Rec == ndJsonDeserialize(IOEnv.TRACEFILE)

One == <<1>>
Prime(f) ==
  CASE f = "FieldPrio2" -> BigAdd(BigSub(Pow2Big(32), Pow2Big(20)), One)
    [] f = "Field64"    -> BigAdd(BigSub(Pow2Big(64), Pow2Big(32)), One)
    [] f = "Field128"   -> BigAdd(BigSub(Pow2Big(128), BigMul(<<7>>, Pow2Big(66))), One)
    [] f = "Field255"   -> BigSub(Pow2Big(255), <<19>>)
EncSize(f) == CASE f = "FieldPrio2" -> 4 [] f = "Field64" -> 8 [] f = "Field128" -> 16 [] f = "Field255" -> 32
ModBits(f) == CASE f = "FieldPrio2" -> 32 [] f = "Field64" -> 64 [] f = "Field128" -> 128 [] f = "Field255" -> 255
NumRoots(f) == CASE f = "FieldPrio2" -> 20 [] f = "Field64" -> 32 [] f = "Field128" -> 66 [] OTHER -> 0

Reduced(f, z) == IsBig(z) /\ BigLt(z, Prime(f))
\* a = q * p + r
DivIdent(f, a, q, r) == BigEq(a, BigAdd(BigMul(q, Prime(f)), r))

\* clear the bits at and above position `bits` of a little-endian byte string
MaskBytes(bs, bits) ==
  [i \in 1..Len(bs) |->
     IF 8 * i <= bits THEN bs[i]
     ELSE IF 8 * (i - 1) >= bits THEN 0
     ELSE bs[i] % (CASE bits % 8 = 1 -> 2 [] bits % 8 = 2 -> 4 [] bits % 8 = 3 -> 8 [] bits % 8 = 4 -> 16
                     [] bits % 8 = 5 -> 32 [] bits % 8 = 6 -> 64 [] bits % 8 = 7 -> 128)]

\* square-and-multiply replay: steps are [a, b, z, q] multiplications
RECURSIVE PowChain(_, _, _, _, _, _)
PowChain(f, x, bits, steps, i, t) == \* returns <<ok, t>>; i indexes steps
  IF bits = <<>> THEN <<i = Len(steps) + 1, t>>
  ELSE IF i > Len(steps) THEN <<FALSE, t>>
  ELSE LET sq == steps[i]
           okSq == BigEq(sq.a, t) /\ BigEq(sq.b, t) /\ Reduced(f, sq.z) /\ DivIdent(f, BigMul(sq.a, sq.b), sq.q, sq.z)
       IN IF ~okSq THEN <<FALSE, t>>
          ELSE IF Head(bits) = 0 THEN PowChain(f, x, Tail(bits), steps, i + 1, sq.z)
          ELSE IF i + 1 > Len(steps) THEN <<FALSE, t>>
          ELSE LET ml == steps[i + 1]
                   okMl == BigEq(ml.a, sq.z) /\ BigEq(ml.b, x) /\ Reduced(f, ml.z) /\ DivIdent(f, BigMul(ml.a, ml.b), ml.q, ml.z)
               IN IF ~okMl THEN <<FALSE, t>> ELSE PowChain(f, x, Tail(bits), steps, i + 2, ml.z)

Bit(q) == Norm(q) = <<>> \/ Norm(q) = One
BigLe(a, b) == BigLt(a, b) \/ BigEq(a, b)
\* value of a little-endian binary digit sequence
RECURSIVE BigSumDigits(_)
BigSumDigits(ds) == IF ds = <<>> THEN <<>> ELSE BigAdd(FromInt(Head(ds)), BigMul(<<2>>, BigSumDigits(Tail(ds))))

EventOK(e) ==
  LET f == e.f  p == Prime(f) IN
  CASE e.ev = "bin" ->
         /\ Reduced(f, e.x) /\ Reduced(f, e.y) /\ Reduced(f, e.z)
         /\ (CASE e.op = "add" -> Bit(e.q) /\ DivIdent(f, BigAdd(e.x, e.y), e.q, e.z)
               [] e.op = "sub" -> Bit(e.q) /\ BigEq(BigAdd(e.x, BigMul(e.q, p)), BigAdd(e.y, e.z))
               [] e.op = "mul" -> DivIdent(f, BigMul(e.x, e.y), e.q, e.z))
    [] e.ev = "neg" -> Reduced(f, e.x) /\ Reduced(f, e.z) /\ Bit(e.q) /\ BigEq(BigAdd(e.x, e.z), BigMul(e.q, p))
    [] e.ev = "inv" -> /\ Reduced(f, e.x) /\ Reduced(f, e.z)
                       /\ IF Norm(e.x) = <<>> THEN Norm(e.z) = <<>>
                          ELSE DivIdent(f, BigMul(e.x, e.z), e.q, One)
    [] e.ev = "pow" -> LET r == PowChain(f, e.x, e.bits, e.steps, 1, One) IN
                       Reduced(f, e.x) /\ r[1] /\ BigEq(r[2], e.z)
    [] e.ev = "from_int" -> Reduced(f, e.z) /\ DivIdent(f, e.n, e.q, e.z)     \* F::from(n) read back
    \* integers <-> bit vectors: a length b is valid iff 2^b - 1 is representable, i.e. 2^b <= p
    [] e.ev = "bitvec_enc" ->     \* encode_as_bitvector(x, b): refused for invalid b or x >= 2^b, else the b binary digits of x
         LET valid == BigLe(Pow2Big(e.bits), p)
             fits == BigLt(e.x, Pow2Big(e.bits)) IN
         /\ ~e.panic
         /\ e.ok = (valid /\ fits)
         /\ e.ok => /\ Len(e.digits) = e.bits
                     /\ BigEq(e.x, BigSumDigits(e.digits))
                     /\ \A i \in 1..Len(e.digits) : e.digits[i] \in {0, 1}
    [] e.ev = "bitvec_dec" ->     \* decode_bitvector of the all-ones (pat 0) / alternating (pat 1) vector of length b
         LET valid == BigLe(Pow2Big(e.bits), p)
             want == BigSumDigits([i \in 1..e.bits |-> IF e.pat = 0 \/ i % 2 = 1 THEN 1 ELSE 0]) IN
         /\ ~e.panic
         /\ e.ok = valid
         /\ e.ok => BigEq(e.z, want)              \* below 2^b <= p: no reduction happens
    [] e.ev = "encode" -> Len(e.bytes) = EncSize(f) /\ BigEq(BytesLE(e.bytes), e.x) /\ e.len = EncSize(f)
    [] e.ev = "decode" ->     \* exact-size decode: accepted iff canonical
         LET v == BytesLE(e.bytes) IN
         /\ Len(e.bytes) = EncSize(f)
         /\ e.ok = BigLt(v, p)
         /\ e.ok => BigEq(e.z, v)
    [] e.ev = "short" -> e.ok = FALSE /\ Len(e.bytes) < EncSize(f)   \* too few bytes are refused
    [] e.ev = "random" ->     \* try_from_random: mask to the modulus length, then as decode
         LET v == BytesLE(MaskBytes(e.bytes, ModBits(f))) IN
         /\ Len(e.bytes) = EncSize(f)
         /\ e.ok = BigLt(v, p)
         /\ e.ok => BigEq(e.z, v)
    [] e.ev = "eq" ->         \* equality, hashing and encoding agree with equality of residues
         LET same == BigEq(e.x, e.y) IN
         /\ Reduced(f, e.x) /\ Reduced(f, e.y)
         /\ e.eq = same /\ e.ct_eq = same /\ e.enc_eq = same /\ (same => e.hash_eq)
    [] e.ev = "select" -> BigEq(e.z, IF e.c = 1 THEN e.b ELSE e.a)
    [] e.ev = "cneg" -> IF e.c = 1 THEN Reduced(f, e.z) /\ Bit(e.q) /\ BigEq(BigAdd(e.a, e.z), BigMul(e.q, p))
                        ELSE BigEq(e.z, e.a)
    [] e.ev = "consts" ->     \* zero, one, half, modulus
         /\ Norm(e.zero) = <<>> /\ BigEq(e.one, One) /\ BigEq(e.modulus, p)
         /\ Reduced(f, e.half) /\ BigEq(BigAdd(e.half, e.half), BigAdd(p, One))
    [] e.ev = "rootchain" ->  \* vals[l+1] = root(l): root(0) = 1, root(1) = -1, root(l)^2 = root(l-1)
         /\ BigEq(e.vals[1], One)
         /\ Len(e.vals) >= 2 => BigEq(BigAdd(e.vals[2], One), p)
         /\ \A l \in 2..(Len(e.vals) - 1) :
               Reduced(f, e.vals[l + 1]) /\ DivIdent(f, BigMul(e.vals[l + 1], e.vals[l + 1]), e.qs[l + 1], e.vals[l])
         /\ Len(e.vals) = (IF NumRoots(f) < 20 THEN NumRoots(f) ELSE 20) + 1
         /\ e.beyond = FALSE      \* root(l) is None beyond the table
    [] e.ev = "genchain" ->   \* vals[k+1] = g^(2^k), k = 0..NUM_ROOTS: order of g is exactly 2^NUM_ROOTS
         LET n == NumRoots(f) IN
         /\ Len(e.vals) = n + 1 /\ e.log_order = n
         /\ BigEq(e.vals[n + 1], One) /\ BigEq(BigAdd(e.vals[n], One), p)
         /\ \A k \in 1..n : Reduced(f, e.vals[k]) /\ DivIdent(f, BigMul(e.vals[k], e.vals[k]), e.qs[k], e.vals[k + 1])
         /\ BigEq(e.vals[n - (IF n < 20 THEN n ELSE 20) + 1], e.top_root)   \* generator and root table agree
    [] OTHER -> FALSE

VARIABLE l
Init == l = 1
Next == l <= Len(Rec) /\ EventOK(Rec[l]) /\ l' = l + 1
Accepted ==
  IF TLCGet("stats").diameter - 1 = Len(Rec) THEN TRUE
  ELSE PrintT(<<"UNMATCHED", TLCGet("stats").diameter, ToJson(Rec[TLCGet("stats").diameter])>>) /\ FALSE
=============================================================================
