CONSTANTS P = 17 GEN = 3 LOGN = 4 MaxLog = 4 Basis = "all"
INIT Init
NEXT Next
INVARIANT DefsSane
INVARIANT EmitInv
CHECK_DEADLOCK FALSE
