CONSTANTS P = 12289 GEN = 1331 LOGN = 12 Tier = "thorough"
INIT InitProbe
NEXT Next
INVARIANT EmitInv
CHECK_DEADLOCK FALSE
