CONSTANTS P = 17 GEN = 3 LOGN = 4 Tier = "quick"
INIT Init
NEXT Next
INVARIANT BasesAccepted
INVARIANT DecLenAgrees
INVARIANT EmitInv
CHECK_DEADLOCK FALSE
