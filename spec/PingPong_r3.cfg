CONSTANTS R = 3 MaxFaults = 2 MaxSteps = 8
INIT Init
NEXT Next
INVARIANT OutputsCorrect
INVARIANT OrderOK
INVARIANT ReleaseOnlyOnTranscript
INVARIANT SequenceOK
INVARIANT EmitInv
CHECK_DEADLOCK FALSE
