---------------------------- MODULE Aliases_Trace ----------------------------
(***************************************************************************)
(* The shipped Prio3 type aliases (Prio3Count, Prio3Sum, Prio3SumVec,      *)
(* Prio3Histogram, Prio3MultihotCountVec, Prio3Average, Prio3L1BoundSum    *)
(* and the multithreaded variants) on their deployed fields.               *)
(*                                                                         *)
(* The generic Prio3/FLP code is bound to Prio3.tla / Flp.tla on tiny      *)
(* fields (Prio3_Trace.tla).  What remains specific to an alias is which   *)
(* circuit, field, algorithm identifier and number of proofs its           *)
(* constructor instantiates from its arguments.  Each "alias" event is one *)
(* honest batch run through an alias constructor; TLC checks               *)
(*  - the algorithm identifier (draft-irtf-cfrg-vdaf section 10 /          *)
(*    libprio-rs private code points),                                     *)
(*  - every encoded length against the lengths Flp.tla derives for the     *)
(*    circuit the arguments denote (so swapped or clamped arguments, a     *)
(*    different chunk length, field or proof count are visible),           *)
(*  - that every honest report is accepted, and                            *)
(*  - that the unsharded result is the plain aggregate of the batch        *)
(*    modulo the field prime (BigNat witnesses for the reduction).         *)
(***************************************************************************)
EXTENDS Flp, BigNat, Json, IOUtils
Rec == ndJsonDeserialize(IOEnv.TRACEFILE)

SEED == 32
P64 == <<1, 0, 3840, 4095, 4095, 15>>                                     \* 2^64 - 2^32 + 1, base 2^12 limbs
P128 == <<1, 0, 0, 0, 0, 3648, 4095, 4095, 4095, 4095, 255>>             \* 2^128 - 7*2^66 + 1   (checked by ASSUME below)
TwoTo(k) == [i \in 1..(k \div 12 + 1) |-> IF i = k \div 12 + 1 THEN 2 ^ (k % 12) ELSE 0]
ASSUME BigEq(BigAdd(P64, TwoTo(32)), BigAdd(TwoTo(64), <<1>>))
ASSUME BigEq(BigAdd(P128, BigMul(<<7>>, TwoTo(66))), BigAdd(TwoTo(128), <<1>>))
PrimeOfF(f) == IF f = "Field64" THEN P64 ELSE P128
SizeOfF(f) == IF f = "Field64" THEN 8 ELSE 16
\* number of binary digits of a natural given as limbs
BitsOfLimbs(x) == LET n == Norm(x) IN IF n = <<>> THEN 0 ELSE 12 * (Len(n) - 1) + ILog2(n[Len(n)]) + 1

\* what an alias constructor denotes: circuit descriptor (bounds as digit counts), field, algorithm identifier, number of proofs
AliasDesc(e) ==
  LET b == IF "max" \in DOMAIN e THEN BitsOfLimbs(e.max) ELSE 0 IN
  CASE e.alias = "count"     -> [c |-> [kind |-> "Count"], f |-> "Field64", algo |-> 1]
    [] e.alias = "sum"       -> [c |-> [kind |-> "Sum", bits |-> b], f |-> "Field64", algo |-> 2]
    [] e.alias = "sumvec"    -> [c |-> [kind |-> "SumVec", bits |-> b, len |-> e.len, chunk |-> e.chunk], f |-> "Field128", algo |-> 3]
    [] e.alias = "histogram" -> [c |-> [kind |-> "Histogram", len |-> e.len, chunk |-> e.chunk], f |-> "Field128", algo |-> 4]
    [] e.alias = "multihot"  -> [c |-> [kind |-> "Multihot", len |-> e.len, maxw |-> e.maxw, chunk |-> e.chunk], f |-> "Field128", algo |-> 5]
    [] e.alias = "l1boundsum" -> [c |-> [kind |-> "L1BoundSum", bits |-> b, len |-> e.len, chunk |-> e.chunk], f |-> "Field128", algo |-> 7]
    [] e.alias = "average"   -> [c |-> [kind |-> "Sum", bits |-> b], f |-> "Field128", algo |-> 0, algohi |-> 65535]     \* 0xFFFF0000

RECURSIVE BigSum(_)
BigSum(xs) == IF xs = <<>> THEN <<>> ELSE BigAdd(Head(xs), BigSum(Tail(xs)))
\* plain aggregate of the batch, coordinate by coordinate (measurements are given as vectors of limb naturals)
PlainAgg(e) ==
  LET n == Len(e.meas) IN
  CASE e.alias \in {"count", "sum", "average"} -> << BigSum([k \in 1..n |-> e.meas[k][1]]) >>
    [] e.alias = "histogram" -> [i \in 1..e.len |-> FromInt(Cardinality({k \in 1..n : Norm(e.meas[k][1]) = Norm(FromInt(i - 1))}))]
    [] OTHER -> [i \in 1..e.len |-> BigSum([k \in 1..n |-> e.meas[k][i]])]

EventOK(e) ==
  LET d == AliasDesc(e)  c == d.c  fs == SizeOfF(d.f)  jr == JointRandLen(c) > 0  np == 1
      jrs == IF jr THEN SEED ELSE 0
      plain == PlainAgg(e)
  IN /\ e.ok                                                   \* constructor, sharding, every verification step, aggregation and unsharding succeeded
     /\ e.algo = <<(IF "algohi" \in DOMAIN d THEN d.algohi ELSE 0), d.algo>>      \* 32-bit identifier as two 16-bit halves
     /\ e.nshares = e.nagg
     /\ e.lens.pub = (IF jr THEN e.nagg * SEED ELSE 0)
     /\ e.lens.leader = (InputLen(c) + ProofLen(c) * np) * fs + jrs
     /\ e.lens.helper = SEED + jrs
     /\ e.lens.vshare = VerifierLen(c) * np * fs + jrs
     /\ e.lens.msg = jrs
     /\ e.lens.out = OutputLen(c) * fs
     /\ e.lens.agg = OutputLen(c) * fs
     /\ e.lens.verifier_len = VerifierLen(c) * np
     /\ e.lens.output_len = OutputLen(c)
     /\ Len(e.result) = Len(plain)
     /\ \A i \in 1..Len(plain) :                                \* result = plain aggregate mod p  (q is a witness)
          /\ BigLt(e.result[i], PrimeOfF(d.f))
          /\ BigEq(plain[i], BigAdd(e.result[i], BigMul(e.q[i], PrimeOfF(d.f))))
     /\ (e.alias = "average" => e.count = Len(e.meas))          \* the mean is result / count: the harness logs the sum it multiplied back

VARIABLE l
Init == l = 1
Next == l <= Len(Rec) /\ EventOK(Rec[l]) /\ l' = l + 1
Accepted ==
  IF TLCGet("stats").diameter - 1 = Len(Rec) THEN TRUE
  ELSE PrintT(<<"UNMATCHED", TLCGet("stats").diameter, Rec[TLCGet("stats").diameter].alias>>) /\ FALSE
=============================================================================
