------------------------------- MODULE FpOps -------------------------------
(***************************************************************************)
(* Word-level prime-field arithmetic of libprio-rs (src/fp/ops.rs).        *)
(*                                                                         *)
(* Part 1 ("meaning"): what each operation must compute, as arithmetic     *)
(* modulo the prime on Montgomery-domain representations.                  *)
(* Part 2 ("algorithm"): the branch-free add/sub with conditional          *)
(* correction, single-word REDC and split-word REDC, stated over W-bit     *)
(* words with explicit carries/borrows, parametric in the word size.       *)
(* TLC checks Part 2 = Part 1 for every operand pair at small word sizes,  *)
(* and Part 1 is what the implementation is replayed against.              *)
(*                                                                         *)
(* A parameter set is a record                                             *)
(*   [name, p, W, split]  (split = TRUE: half-word products, FP128 style). *)
(* All intermediate values stay below 2^31 (TLC integers are 32-bit).      *)
(***************************************************************************)
EXTENDS Integers, Sequences

RECURSIVE Pow2(_)
Pow2(k) == IF k = 0 THEN 1 ELSE 2 * Pow2(k - 1)

\* (x * y) % n for x, y < 2^16, n <= 2^16, without exceeding 2^31
MulModN(x, y, n) ==
  IF x < 46341 /\ y < 46341 THEN (x * y) % n
  ELSE LET a == x \div 256  b == x % 256 IN (a * ((256 * y) % n) + b * y) % n

RECURSIVE PowModN(_, _, _)
PowModN(x, e, n) ==
  IF e = 0 THEN 1 % n
  ELSE LET h == PowModN(x, e \div 2, n)  hh == MulModN(h, h, n)
       IN IF e % 2 = 0 THEN hh ELSE MulModN(hh, x % n, n)

InvModP(x, p) == PowModN(x, p - 2, p)

RECURSIVE BitLen(_)
BitLen(n) == IF n = 0 THEN 0 ELSE 1 + BitLen(n \div 2)

RECURSIVE TwoAdicity(_)
TwoAdicity(n) == IF n % 2 = 1 THEN 0 ELSE 1 + TwoAdicity(n \div 2)

-----------------------------------------------------------------------------
(* Part 1: meaning *)
\* A parameter set may carry the derived constants rmod = R mod p, rinv = R^-1 mod p and mu
\* (added once by Derive, so that they are not recomputed for every operand pair).
R(ps)    == Pow2(ps.W)
RmodP(ps) == IF "rmod" \in DOMAIN ps THEN ps.rmod ELSE R(ps) % ps.p
RInv(ps) == IF "rinv" \in DOMAIN ps THEN ps.rinv ELSE InvModP(R(ps) % ps.p, ps.p)

\* representation <-> integer
ToMont(ps, n)   == MulModN(n % ps.p, RmodP(ps), ps.p)
FromMont(ps, x) == MulModN(x, RInv(ps), ps.p)

MAdd(ps, x, y) == (x + y) % ps.p
MSub(ps, x, y) == (x + ps.p - y) % ps.p
MNeg(ps, x)    == (ps.p - x) % ps.p
MMul(ps, x, y) == MulModN(MulModN(x, y, ps.p), RInv(ps), ps.p)
MPow(ps, x, e) == ToMont(ps, PowModN(FromMont(ps, x), e, ps.p))
MInv(ps, x)    == MPow(ps, x, ps.p - 2)          \* 0 maps to 0, as x^(p-2) does
MMontgomery(ps, n) == ToMont(ps, n)              \* any n < 2^W
MResidue(ps, x)    == FromMont(ps, x)

\* defining equations of the constants a parameter set advertises
MuBase(ps) == IF ps.split THEN Pow2(ps.W \div 2) ELSE Pow2(ps.W)
MuOf(ps) == CHOOSE m \in 0..(MuBase(ps) - 1) : (MulModN(m, ps.p % MuBase(ps), MuBase(ps)) + 1) % MuBase(ps) = 0
Derive(ps) == [name |-> ps.name, p |-> ps.p, W |-> ps.W, split |-> ps.split,
               rmod |-> Pow2(ps.W) % ps.p, rinv |-> InvModP(Pow2(ps.W) % ps.p, ps.p),
               mu |-> IF ps.W <= 8 \/ ps.split THEN MuOf(ps) ELSE 0]
ConstantsOK(ps, c) ==
  /\ c.prime = ps.p
  /\ (MulModN(c.mu, ps.p % MuBase(ps), MuBase(ps)) + 1) % MuBase(ps) = 0
  /\ c.mu < MuBase(ps)
  /\ c.r2 = MulModN(RmodP(ps), RmodP(ps), ps.p)
  /\ c.bit_mask = Pow2(BitLen(ps.p)) - 1
  /\ MulModN(c.half, 2, ps.p) = RmodP(ps)
  /\ c.num_roots = TwoAdicity(ps.p - 1) \/ (c.num_roots <= TwoAdicity(ps.p - 1))
  /\ c.g = c.roots[c.num_roots + 1]
  /\ c.roots[1] = RmodP(ps)
  /\ \A l \in 1..(IF c.num_roots < 20 THEN c.num_roots ELSE 20) :
        LET r == FromMont(ps, c.roots[l + 1]) IN
        /\ PowModN(r, Pow2(l - 1), ps.p) = ps.p - 1      \* order exactly 2^l
  /\ \A l \in 1..(IF c.num_roots < 20 THEN c.num_roots ELSE 20) :
        MMul(ps, c.roots[l + 1], c.roots[l + 1]) = c.roots[l]

-----------------------------------------------------------------------------
(* Part 2: the algorithms over W-bit words *)
OvAdd(W, x, y) == [v |-> (x + y) % Pow2(W), c |-> IF x + y >= Pow2(W) THEN 1 ELSE 0]
OvSub(W, x, y) == [v |-> (x - y + Pow2(W)) % Pow2(W), b |-> IF x < y THEN 1 ELSE 0]

\* (z & mask) | (s0 & ~mask) with mask = 0 - b1 (all ones iff b1 = 1)
Select(b1, z, s0) == IF b1 = 1 THEN z ELSE s0

AAdd(ps, x, y) ==
  LET W == ps.W
      a == OvAdd(W, x, y)
      s == OvSub(W, a.v, ps.p)
      t == OvSub(W, a.c, s.b)
  IN Select(t.b, a.v, s.v)

ASub(ps, x, y) ==
  LET W == ps.W
      d == OvSub(W, x, y)
  IN (d.v + (IF d.b = 1 THEN ps.p ELSE 0)) % Pow2(W)

ANeg(ps, x)  == ASub(ps, 0, x)
AModp(ps, x) == ASub(ps, x, ps.p)

\* single-word REDC; products are formed in a 2W-bit word (only W <= 15 fits TLC; used at W = 8)
AMulSingle(ps, mu, x, y) ==
  LET W == ps.W  B == Pow2(W)
      zz == x * y            z1 == zz \div B   z0 == zz % B
      w  == (mu * z0) % B
      rr == ps.p * w         r1 == rr \div B   r0 == rr % B
      carry == IF z0 + r0 >= B THEN 1 ELSE 0
      t  == z1 + r1 + carry  cc == t \div B    z == t % B
      s  == OvSub(W, z, ps.p)
      u  == OvSub(W, cc, s.b)
  IN Select(u.b, z, s.v)

\* split-word REDC with half-words of H = W/2 bits, statement by statement as in the code
AMulSplit(ps, mu, x, y) ==
  LET W == ps.W  H == W \div 2  B == Pow2(H)
      hi(v) == v \div B   lo(v) == v % B
      x1 == hi(x)  x0 == lo(x)  y1 == hi(y)  y0 == lo(y)
      \* z = x * y  (schoolbook)
      r1 == x0 * y0         carry1 == hi(r1)  z0 == lo(r1)
      r2 == x0 * y1         r3 == lo(r2) + carry1   z1a == lo(r3)
      r4 == hi(r2) + hi(r3) z2a == lo(r4)
      r5 == x1 * y0         r6 == z1a + lo(r5)      z1b == lo(r6)
      r7 == hi(r5) + hi(r6) carry2 == lo(r7)
      r8 == x1 * y1         r9 == lo(r8) + carry2   lo9 == lo(r9)
      r10 == hi(r8) + hi(r9) hi10 == lo(r10)
      r11 == z2a + lo9      z2b == lo(r11)
      r12 == hi10 + hi(r11) z3a == lo(r12)
      \* first reduction step, w = mu * z0 mod 2^H
      w1 == (mu * z0) % B
      p0 == lo(ps.p)  p1 == hi(ps.p)
      s1 == p0 * w1         s2 == z0 + lo(s1)
      s3 == hi(s1) + hi(s2) carry3 == lo(s3)
      s4 == p1 * w1         s5 == lo(s4) + carry3   lo5 == lo(s5)
      s6 == hi(s4) + hi(s5) hi6 == lo(s6)
      s7 == z1b + lo5       z1c == lo(s7)
      s8 == z2b + hi6 + hi(s7)  z2c == lo(s8)
      s9 == z3a + hi(s8)    z3b == lo(s9)
      \* second reduction step, w = mu * z1 mod 2^H
      w2 == (mu * z1c) % B
      t1 == p0 * w2         t2 == z1c + lo(t1)
      t3 == hi(t1) + hi(t2) carry4 == lo(t3)
      t4 == p1 * w2         t5 == lo(t4) + carry4   lo5b == lo(t5)
      t6 == hi(t4) + hi(t5) hi6b == lo(t6)
      t7 == z2c + lo5b      z2d == lo(t7)
      t8 == z3b + hi6b + hi(t7)  z3c == lo(t8)   cc == hi(t8)
      prod == z2d + z3c * B
      s  == OvSub(W, prod, ps.p)
      u  == OvSub(W, cc, s.b)
  IN Select(u.b, prod, s.v)

AMul(ps, mu, x, y) == IF ps.split THEN AMulSplit(ps, mu, x, y) ELSE AMulSingle(ps, mu, x, y)

\* square-and-multiply exactly as FieldOps::pow: t starts at ROOTS[0] = R mod p
RECURSIVE APowGo(_, _, _, _, _, _)
APowGo(ps, mu, x, e, i, t) ==
  IF i < 0 THEN t
  ELSE LET t2 == AMul(ps, mu, t, t)
           t3 == IF (e \div Pow2(i)) % 2 = 1 THEN AMul(ps, mu, t2, x) ELSE t2
       IN APowGo(ps, mu, x, e, i - 1, t3)
APow(ps, mu, x, e) == APowGo(ps, mu, x, e, BitLen(e) - 1, RmodP(ps))
=============================================================================
