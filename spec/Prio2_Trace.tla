---------------------------- MODULE Prio2_Trace ----------------------------
(***************************************************************************)
(* C19 binding.  (a) The field-generic Prio2 client/server routines run    *)
(* over a tiny field (hook H4): every proof element and verification       *)
(* message is recomputed by TLC from Prio2.tla.  (b) The real Prio2 VDAF   *)
(* over its 32-bit field: outcomes (accept / reject under several          *)
(* verification keys, exact sums) and the query-point rejection loop, the  *)
(* latter judged through squaring-chain witnesses (BigNat).                *)
(***************************************************************************)
EXTENDS Prio2, BigNat, TLC, Json, IOUtils
Rec == ndJsonDeserialize(IOEnv.TRACEFILE)
P32 == BigAdd(BigSub(Pow2Big(32), Pow2Big(20)), <<1>>)

\* number of independent verification keys after which a bad report that was accepted every time
\* is a violation: soundness error 2n/p per key, alarm threshold 2^-64  (the "k-key rule")
RECURSIVE KeysNeeded(_, _)
KeysNeeded(logn2, k) == IF k * (32 - logn2) >= 64 THEN k ELSE KeysNeeded(logn2, k + 1)
K(dim) == KeysNeeded(ILog2(2 * N(dim)), 1)

ChainOK(chain, qs) ==   \* chain[i+1] = chain[i]^2 mod P32, witnessed by quotients
  \A i \in 1..(Len(chain) - 1) :
    /\ BigLt(chain[i + 1], P32)
    /\ BigEq(BigMul(chain[i], chain[i]), BigAdd(BigMul(qs[i], P32), chain[i + 1]))

EventOK(e) ==
  CASE e.ev = "prove" -> e.p = P /\ Len(e.proof) = ProofLength(e.dim) /\ e.proof = Proof(e.dim, e.data, e.proof[e.dim + 1], e.proof[e.dim + 2])
    [] e.ev = "vmsg" -> e.p = P /\ IF Len(e.share) # ProofLength(e.dim) THEN ~e.ok
                                    ELSE e.ok /\ e.out = VerMsg(e.dim, e.r, e.share, e.first)
    [] e.ev = "valid" -> e.p = P /\ e.out = Valid(e.v1, e.v2)
    [] e.ev = "run" ->       \* real Prio2 (FieldPrio2), outcome level
         CASE e.kind = "honest" -> (\A k \in 1..Len(e.accepted) : e.accepted[k]) /\ e.codec_ok
                                   /\ e.result = [i \in 1..e.dim |-> LET RECURSIVE tot(_)  tot(k) == IF k = 0 THEN 0 ELSE e.ms[k][i] + tot(k - 1) IN tot(Len(e.ms))]
           [] OTHER -> Len(e.accepted) >= K(e.dim) /\ \E k \in 1..Len(e.accepted) : ~e.accepted[k]
    [] e.ev = "choose" ->    \* the query point is the first stream element that is not a 2n-th root of unity
         LET n2 == 2 * N(e.dim)  logn2 == ILog2(n2)
             isroot(i) == BigEq(e.chains[i][logn2 + 1], <<1>>)
         IN /\ \A i \in 1..Len(e.stream) : Len(e.chains[i]) = logn2 + 1 /\ BigEq(e.chains[i][1], e.stream[i]) /\ ChainOK(e.chains[i], e.qs[i])
            /\ \E i \in 1..Len(e.stream) : ~isroot(i) /\ BigEq(e.out, e.stream[i]) /\ \A j \in 1..(i - 1) : isroot(j)
            /\ e.roots_before >= 1 => isroot(1)         \* the script really starts with roots of unity
    [] OTHER -> FALSE
VARIABLE l
Init == l = 1
Next == l <= Len(Rec) /\ EventOK(Rec[l]) /\ l' = l + 1
Accepted ==
  IF TLCGet("stats").diameter - 1 = Len(Rec) THEN TRUE
  ELSE PrintT(<<"UNMATCHED", TLCGet("stats").diameter, Rec[TLCGet("stats").diameter].ev>>) /\ FALSE
=============================================================================
