------------------------------- MODULE BigNat -------------------------------
(***************************************************************************)
(* Naturals of arbitrary size as little-endian sequences of base-2^12      *)
(* limbs, so that TLC (32-bit integers) can judge arithmetic facts about   *)
(* 64-, 128- and 255-bit field elements: the implementation (or harness)   *)
(* supplies operands, results and quotient witnesses; TLC checks the       *)
(* defining integer identity.  Column sums stay below 2^30 for operands of *)
(* up to 60 limbs.                                                         *)
(***************************************************************************)
EXTENDS Integers, Sequences

BASE == 4096

IsBig(s) == \A i \in 1..Len(s) : s[i] \in 0..(BASE - 1)

RECURSIVE Norm(_)
Norm(s) == IF s = <<>> THEN <<>>
           ELSE IF s[Len(s)] = 0 THEN Norm(SubSeq(s, 1, Len(s) - 1)) ELSE s

Limb(s, i) == IF i >= 1 /\ i <= Len(s) THEN s[i] ELSE 0
MaxI(a, b) == IF a > b THEN a ELSE b

RECURSIVE Carry(_, _)
Carry(cols, c) ==
  IF cols = <<>> THEN (IF c = 0 THEN <<>> ELSE <<c % BASE>> \o Carry(<<>>, c \div BASE))
  ELSE LET t == Head(cols) + c IN <<t % BASE>> \o Carry(Tail(cols), t \div BASE)

BigAdd(a, b) == Norm(Carry([i \in 1..MaxI(Len(a), Len(b)) |-> Limb(a, i) + Limb(b, i)], 0))

RECURSIVE ColSum(_, _, _, _)
ColSum(a, b, k, i) == \* sum over i of a[i] * b[k + 1 - i]
  IF i > Len(a) \/ i > k THEN 0
  ELSE (IF k + 1 - i <= Len(b) THEN a[i] * b[k + 1 - i] ELSE 0) + ColSum(a, b, k, i + 1)

BigMul(a, b) ==
  IF Norm(a) = <<>> \/ Norm(b) = <<>> THEN <<>>
  ELSE Norm(Carry([k \in 1..(Len(a) + Len(b) - 1) |-> ColSum(a, b, k, 1)], 0))

RECURSIVE BorrowSub(_, _, _, _)
BorrowSub(a, b, i, br) == \* a - b for a >= b
  IF i > Len(a) THEN <<>>
  ELSE LET t == a[i] - Limb(b, i) - br IN
       <<(t + BASE) % BASE>> \o BorrowSub(a, b, i + 1, IF t < 0 THEN 1 ELSE 0)
BigSub(a, b) == Norm(BorrowSub(a, b, 1, 0))

Pow2Big(k) == [i \in 1..((k \div 12) + 1) |-> IF i = (k \div 12) + 1 THEN
                 (CASE k % 12 = 0 -> 1 [] k % 12 = 1 -> 2 [] k % 12 = 2 -> 4 [] k % 12 = 3 -> 8 [] k % 12 = 4 -> 16
                    [] k % 12 = 5 -> 32 [] k % 12 = 6 -> 64 [] k % 12 = 7 -> 128 [] k % 12 = 8 -> 256
                    [] k % 12 = 9 -> 512 [] k % 12 = 10 -> 1024 [] k % 12 = 11 -> 2048) ELSE 0]

RECURSIVE LtFrom(_, _, _)
LtFrom(a, b, i) == IF i = 0 THEN FALSE
                   ELSE IF a[i] # b[i] THEN a[i] < b[i] ELSE LtFrom(a, b, i - 1)
BigLt(a0, b0) == LET a == Norm(a0)  b == Norm(b0) IN
                 IF Len(a) # Len(b) THEN Len(a) < Len(b) ELSE LtFrom(a, b, Len(a))
BigEq(a, b) == Norm(a) = Norm(b)

RECURSIVE FromInt(_)
FromInt(n) == IF n = 0 THEN <<>> ELSE <<n % BASE>> \o FromInt(n \div BASE)

\* little-endian bytes <-> limbs: two limbs = three bytes
RECURSIVE BytesToBig(_)
BytesToBig(bs) ==
  IF bs = <<>> THEN <<>>
  ELSE LET b0 == bs[1]  b1 == IF Len(bs) >= 2 THEN bs[2] ELSE 0  b2 == IF Len(bs) >= 3 THEN bs[3] ELSE 0
           v == b0 + 256 * b1 + 65536 * b2
       IN <<v % BASE, v \div BASE>> \o BytesToBig(IF Len(bs) <= 3 THEN <<>> ELSE SubSeq(bs, 4, Len(bs)))
BytesLE(bs) == Norm(BytesToBig(bs))
=============================================================================
