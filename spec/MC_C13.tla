---------------------------- MODULE MC_C13 ----------------------------
EXTENDS Aggregation
\* tiny field: values chosen so that sums wrap around 17
Shares17 == << [kind |-> "v", vec |-> <<16, 1>>], [kind |-> "v", vec |-> <<9, 16>>], [kind |-> "v", vec |-> <<8, 0>>], [kind |-> "v", vec |-> <<1, 16>>] >>
Bad17 == << [kind |-> "v", vec |-> <<1>>], [kind |-> "v", vec |-> <<1, 2, 3>>], [kind |-> "v", vec |-> <<>>] >>
\* exact integers (mapped into Field64 / Field128 / FieldPrio2 / Field255 by the harness)
SharesZ == << [kind |-> "inner", vec |-> <<1, -1, 5>>], [kind |-> "inner", vec |-> <<-3, 2, 0>>], [kind |-> "inner", vec |-> <<7, -2, 1>>], [kind |-> "inner", vec |-> <<0, 0, -6>>] >>
BadZ == << [kind |-> "inner", vec |-> <<1, 2>>], [kind |-> "inner", vec |-> <<>>], [kind |-> "inner", vec |-> <<1, 2, 3, 4>>] >>
\* Poplar1: a share of the other tree-level kind (same length) must be refused as well
BadZP == BadZ \o << [kind |-> "leaf", vec |-> <<1, 2, 3>>], [kind |-> "leaf", vec |-> <<0, 0, 0>>] >>
Shares17x3 == SubSeq(Shares17, 1, 3)
SharesZ3 == SubSeq(SharesZ, 1, 3)
SharesZ5 == SharesZ \o << [kind |-> "inner", vec |-> <<2, 2, 2>>] >>
=============================================================================
