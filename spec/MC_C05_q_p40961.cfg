CONSTANTS P = 40961 GEN = 243 LOGN = 13 Tier = "quick"
INIT Init
NEXT Next
INVARIANT Lengths
INVARIANT Completeness
INVARIANT ValidAgrees
INVARIANT Linearity
INVARIANT HonestProofGadgetTest
INVARIANT EmitInv
CHECK_DEADLOCK FALSE
