CONSTANTS P = 12289 GEN = 1331 LOGN = 12 Tier = "thorough"
INIT InitEnc
NEXT Next
INVARIANT EncodeOK
INVARIANT EmitInv
CHECK_DEADLOCK FALSE
