CONSTANTS P = 40961 GEN = 243 LOGN = 13 SEED = 32
INIT Init
NEXT Next
POSTCONDITION Accepted
CHECK_DEADLOCK FALSE
