---------------------------- MODULE ParSum ----------------------------
(***************************************************************************)
(* The contract of rayon's  par_chunks(..).fold(identity, f).map(..)       *)
(* .reduce(identity2, g)  as used by ParallelSumMultithreaded::eval_poly:  *)
(* the chunk sequence is cut into any number of tasks, each task folds its *)
(* chunks, in order, into a FRESH state produced by `identity`; the task   *)
(* results are then combined by `g` in any association, and the reduce     *)
(* identity may be combined in anywhere, any number of times.              *)
(* The serial gadget computes  sum_i  G(chunk_i)  (element-wise, GF(P)).   *)
(* TLC explores every schedule of the contract and checks that the result  *)
(* is the serial one -- which needs exactly: the fold identity's partial   *)
(* sum is zero, the reduce identity is zero and g is element-wise          *)
(* addition (negative controls below show each is necessary).              *)
(***************************************************************************)
EXTENDS Integers, Sequences, FiniteSets, TLC
CONSTANTS P, N, VLen,      \* field, number of chunks, vector length
          FoldInit,         \* initial partial sum of a fresh fold state (0 in the implementation)
          ReduceInit,       \* identity of the reduction (0 in the implementation)
          MaxIdent          \* how many times the scheduler may insert the reduce identity

Val(i) == [k \in 1..VLen |-> (3 * i + 5 * k + i * k) % P]         \* G(chunk_i): the inner gadget's output on chunk i
Zero == [k \in 1..VLen |-> 0]
Const(c) == [k \in 1..VLen |-> c]
VAdd(a, b) == [k \in 1..VLen |-> (a[k] + b[k]) % P]
RECURSIVE SerialFrom(_)
SerialFrom(i) == IF i > N THEN Zero ELSE VAdd(Val(i), SerialFrom(i + 1))
Serial == SerialFrom(1)

VARIABLES next,      \* next chunk not yet handed to a task
          cur,       \* the running fold state of the current task, or "none"
          parts,     \* sequence of finished task results / partially reduced values, in chunk order
          idents, done
vars == <<next, cur, parts, idents, done>>
None == <<"none">>
Init == next = 1 /\ cur = None /\ parts = <<>> /\ idents = 0 /\ done = FALSE

\* (at most N + 2 tasks: rayon may create idle fold states, but only finitely many matter)
StartTask == /\ cur = None /\ next <= N /\ Len(parts) + idents < 2 * N + 2
             /\ cur' = Const(FoldInit)               \* a fresh state from the fold identity
             /\ UNCHANGED <<next, parts, idents, done>>
FoldStep ==  /\ cur # None /\ next <= N
             /\ cur' = VAdd(cur, Val(next)) /\ next' = next + 1
             /\ UNCHANGED <<parts, idents, done>>
EndTask ==   /\ cur # None /\ (cur # Const(FoldInit) \/ Len(parts) < N + 2)                                \* a task may end at any point (even empty: rayon may create idle states)
             /\ parts' = Append(parts, cur) /\ cur' = None
             /\ UNCHANGED <<next, idents, done>>
Reduce ==    /\ \E i \in 1..(Len(parts) - 1) :                \* combine two adjacent results (any association)
                  parts' = SubSeq(parts, 1, i - 1) \o <<VAdd(parts[i], parts[i + 1])>> \o SubSeq(parts, i + 2, Len(parts))
             /\ UNCHANGED <<next, cur, idents, done>>
InsertIdentity == /\ idents < MaxIdent
                  /\ \E i \in 0..Len(parts) : parts' = SubSeq(parts, 1, i) \o <<Const(ReduceInit)>> \o SubSeq(parts, i + 1, Len(parts))
                  /\ idents' = idents + 1
                  /\ UNCHANGED <<next, cur, done>>
Finish == /\ next > N /\ cur = None /\ Len(parts) <= 1 /\ ~done
          /\ done' = TRUE
          /\ parts' = IF parts = <<>> THEN <<Const(ReduceInit)>> ELSE parts      \* reduce of nothing is the identity
          /\ UNCHANGED <<next, cur, idents>>
Next == ~done /\ (StartTask \/ FoldStep \/ EndTask \/ Reduce \/ InsertIdentity \/ Finish)
Spec == Init /\ [][Next]_vars

\* C14 on the contract: whatever the schedule, the final value is the serial sum
SameAsSerial == done => parts[1] = Serial
\* every chunk is folded exactly once, in some task (by construction of the contract; kept as a sanity invariant)
Progress == next \in 1..(N + 1)
=============================================================================
