CONSTANTS M = 0 Shares <- SharesZ3 Bad <- BadZP Kind = "inner" L = 3 MaxAccs = 3 MaxSteps = 8
INIT Init
NEXT Next
INVARIANT PartialSums
INVARIANT NoDoubleCount
INVARIANT FinalIsSinglePass
INVARIANT EmitInv
CHECK_DEADLOCK FALSE
