CONSTANTS M = 17 Shares <- Shares17x3 Bad <- Bad17 Kind = "v" L = 2 MaxAccs = 3 MaxSteps = 8
INIT Init
NEXT Next
INVARIANT PartialSums
INVARIANT NoDoubleCount
INVARIANT FinalIsSinglePass
INVARIANT EmitInv
CHECK_DEADLOCK FALSE
