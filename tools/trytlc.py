#!/usr/bin/env python3
"""dev helper: trytlc.py MODULE CFG [workers] -> runs TLC, saves replay lines to work/CFG.ndjson"""
import sys
sys.path.insert(0, '/verif/tools')
import vlib
mod, cfg = sys.argv[1], sys.argv[2]
w = int(sys.argv[3]) if len(sys.argv) > 3 else 8
r = vlib.run_tlc(mod, cfg, workers=w, timeout=int(sys.argv[4]) if len(sys.argv) > 4 else 120)
print(cfg, "generated", r.generated, "distinct", r.distinct, "replay", len(r.replay), "violated", r.violated, "error", r.error, "wall", round(r.wall, 1))
if r.violated or r.error:
    import re
    tail = [l for l in r.out.splitlines() if not re.match(r"^(Parsing|Semantic|Linting) ", l)]
    print("\n".join(tail[-40:]))
else:
    open('/verif/work/' + cfg + '.ndjson', 'w').write("\n".join(r.replay) + "\n")
