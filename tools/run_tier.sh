#!/bin/bash
# run_tier.sh <tier> <PID...>: runs the given checks one after the other, prints one status line each (dev helper)
T=$1; shift
for p in "$@"; do
  s=$(date +%s)
  out=$(python3 tools/check.py $p --tier $T 2>&1 | grep -E "^(VIOLATION|OK|KNOWN|TOOL)" | tail -3 | cut -c1-300)
  echo "$p exit=$? $(( $(date +%s) - s ))s :: $out"
done
