#!/bin/bash
# seed_confirm.sh <seed dir> <worktree>: confirms a seeded change independently:
#  (1) applies patch in the worktree, existing suite passes; (2) demo fails with patch; (3) demo passes without.
set -u
S=$1; W=$2
cd "$W" || exit 2
git checkout -q -- . ; rm -f tests/seed_demo.rs
git apply "$S/patch.diff" || { echo "APPLY-FAILED"; exit 2; }
SUITE=$(cargo nextest run --workspace --no-fail-fast --test-threads 8 --offline 2>&1 | grep -E "Summary|tests run" | tail -1)
cp "$S/demo.rs" tests/seed_demo.rs
WITH=$(cargo test --offline --features experimental,test-util,multithreaded --test seed_demo 2>&1 | grep -E "^test result|error(\[|:)" | tail -2 | tr '\n' ' ')
git checkout -q -- .
WITHOUT=$(cargo test --offline --features experimental,test-util,multithreaded --test seed_demo 2>&1 | grep -E "^test result|error(\[|:)" | tail -2 | tr '\n' ' ')
rm -f tests/seed_demo.rs
echo "suite_with_patch: $SUITE"
echo "demo_with_patch: $WITH"
echo "demo_without_patch: $WITHOUT"
