#!/usr/bin/env python3
"""Shared machinery of the libprio-rs model-based checks: harness build, TLC runs (model checking,
behaviour generation, trace validation), evidence files, known findings, exit protocol.

Exit protocol (see MANIFEST.json): 0 = property held on everything explored; 1 = violation, with a
line `VIOLATION property=<id> replay=<path>` on stdout; 2 = tool failure (build error, TLC crash,
timeout) -- never reported as a violation.
"""
import json
import os
import re
import subprocess
import sys
import time

VERIF = os.path.dirname(os.path.dirname(os.path.abspath(__file__)))
SPEC = os.path.join(VERIF, "spec")
# VERIF_DEV_HARNESS (development only, never set by a registered command): a copy of harness/ whose path dependency points
# at a scratch worktree of /repo carrying a seeded change, so that seeds can be tried without touching /repo
HARNESS = os.environ.get("VERIF_DEV_HARNESS") or os.path.join(VERIF, "harness")
WORK = os.path.join(VERIF, "work")
EVID = os.path.join(VERIF, "evidence")
REPLAY_DIR = os.path.join(EVID, "replay")
JAR = "/opt/veriftools/tla/tla2tools.jar:/opt/veriftools/tla/CommunityModules-deps.jar"
HARNESS_BIN = os.path.join(HARNESS, "target", "debug", "prio-conform")


class ToolError(Exception):
    pass


def log(*a):
    print(*a, file=sys.stderr, flush=True)


def build_harness():
    """cargo build of the conformance harness against /repo's current working tree (hooks on)."""
    t = time.time()
    env = dict(os.environ, CARGO_NET_OFFLINE="true")
    p = subprocess.run(["cargo", "build", "--offline", "--quiet"], cwd=HARNESS, env=env,
                       stdout=subprocess.PIPE, stderr=subprocess.STDOUT, text=True)
    if p.returncode != 0:
        log(p.stdout[-6000:])
        raise ToolError("harness build failed")
    log("[build] harness built in %.1fs" % (time.time() - t))
    return HARNESS_BIN


class TlcResult:
    def __init__(self):
        self.generated = 0
        self.distinct = 0
        self.replay = []       # payload strings of <<"REPLAY", "...">> lines
        self.prints = []       # other PrintT tuples (raw text)
        self.violated = None   # name of violated invariant / property
        self.error = None      # other TLC error text
        self.out = ""
        self.wall = 0.0
        self.coverage = {}
        self.errhead = []      # first lines of each TLC error message


_REPLAY = re.compile(r'^<<"REPLAY", "(.*)">>$')
_STATS = re.compile(r'^(\d+) states generated, (\d+) distinct states found')


def _unescape(s):
    # TLC prints strings with \" and \\ escapes
    return s.replace('\\"', '"').replace("\\\\", "\\")


def run_tlc(module, cfg=None, workers=4, timeout=600, env=None, simulate=None, xmx="4g",
            deque=False, seed=None, cwd=SPEC, extra=None, collect_replay=True, tag=None):
    """Runs TLC on spec/<module>.tla with spec/<cfg>.cfg. Returns a TlcResult."""
    os.makedirs(WORK, exist_ok=True)
    tag = tag or module
    meta = os.path.join(WORK, "tlc-%s-%d" % (tag, os.getpid()))
    jopts = ["-XX:+UseParallelGC", "-Xss1g", "-Xmx" + xmx]
    if deque:
        jopts.append("-Dtlc2.tool.queue.IStateQueue=StateDeque")
    cmd = ["timeout", str(int(timeout)), "java"] + jopts + ["-cp", JAR, "tlc2.TLC",
           "-workers", str(workers), "-metadir", meta, "-cleanup", "-noGenerateSpecTE",
           "-config", (cfg or module) + ".cfg"]
    if simulate:
        cmd += ["-simulate", simulate]
    if seed is not None:
        cmd += ["-seed", str(seed)]
    if extra:
        cmd += extra
    cmd += [module + ".tla"]
    e = dict(os.environ)
    e.pop("JAVA_TOOL_OPTIONS", None)
    if env:
        e.update({k: str(v) for k, v in env.items()})
    t = time.time()
    res = TlcResult()
    p = subprocess.Popen(cmd, cwd=cwd, env=e, stdout=subprocess.PIPE, stderr=subprocess.STDOUT,
                         text=True, errors="replace")
    keep = []
    grab = 0
    for line in p.stdout:
        line = line.rstrip("\n")
        if line.startswith("Error:") or "exception was" in line:
            grab = 4
        if grab > 0 and len(res.errhead) < 24:
            res.errhead.append(line[:300])
            grab -= 1
        if collect_replay:
            m = _REPLAY.match(line)
            if m:
                res.replay.append(_unescape(m.group(1)))
                continue
        if line.startswith("<<"):
            res.prints.append(line)
        keep.append(line)
        m = _STATS.match(line)
        if m:
            res.generated, res.distinct = int(m.group(1)), int(m.group(2))
        m = re.match(r"^Error: Invariant (\S+) is violated", line)
        if m:
            res.violated = m.group(1)
        elif line.startswith("Error: Action property") or line.startswith("Error: Temporal properties were violated"):
            res.violated = res.violated or "property"
        elif line.startswith("Error:") and res.error is None and res.violated is None:
            res.error = line
    rc = p.wait()
    res.wall = time.time() - t
    res.out = "\n".join(keep[-400:])
    subprocess.run(["rm", "-rf", meta])
    if rc == 124:
        raise ToolError("TLC timed out after %ss on %s/%s" % (timeout, module, cfg))
    if res.violated is None and res.error is None and rc != 0:
        res.error = "TLC exit status %d" % rc
    return res


def tlc_ok(res, what):
    """Raises ToolError if the run failed for a reason other than a property verdict."""
    if res.error and not res.violated:
        log("\n".join(res.errhead))
        raise ToolError("TLC failed on %s: %s" % (what, res.error))


def validate_trace(module, cfg, trace_path, timeout=600, env=None, xmx="4g", tag=None):
    """Trace validation: runs the trace spec over the ndjson file; the spec's POSTCONDITION prints
    <<"UNMATCHED", index, ...>> and fails when some event could not be matched.
    Returns (accepted: bool, first_unmatched_index or None, TlcResult)."""
    e = {"TRACEFILE": trace_path}
    if env:
        e.update(env)
    res = run_tlc(module, cfg, workers=1, timeout=timeout, env=e, deque=True, xmx=xmx,
                  collect_replay=False, tag=tag)
    unmatched = None
    for l in res.prints:
        m = re.match(r'^<<"UNMATCHED", (\d+)', l)
        if m:
            unmatched = int(m.group(1))
    if unmatched is not None:
        return False, unmatched, res
    if res.error or res.violated:
        # evaluation errors in a trace spec are tool errors unless they come with UNMATCHED
        if "Postcondition" in res.out or "POSTCONDITION" in res.out:
            return False, None, res
        log("\n".join(res.errhead))
        raise ToolError("trace validation of %s failed to run: %s" % (trace_path, res.error or res.violated))
    return True, None, res


def run_harness(args, stdin_lines=None, timeout=1800, env=None, stdin_path=None):
    """Runs the harness binary; returns parsed JSON lines it printed on stdout."""
    e = dict(os.environ)
    e.setdefault("RUST_BACKTRACE", "0")
    if env:
        e.update({k: str(v) for k, v in env.items()})
    inp = None
    stdin = None
    if stdin_lines is not None:
        inp = "\n".join(stdin_lines) + "\n"
    elif stdin_path is not None:
        stdin = open(stdin_path)
    try:
        p = subprocess.run([HARNESS_BIN] + args, input=inp, stdin=stdin, stdout=subprocess.PIPE,
                           stderr=subprocess.PIPE, text=True, timeout=timeout, env=e)
    except subprocess.TimeoutExpired:
        raise ToolError("harness timed out: %s" % " ".join(args))
    finally:
        if stdin:
            stdin.close()
    if p.returncode != 0:
        log(p.stderr[-4000:])
        raise ToolError("harness %s exited with %d" % (" ".join(args[:3]), p.returncode))
    out = []
    for line in p.stdout.splitlines():
        line = line.strip()
        if line.startswith("{"):
            out.append(json.loads(line))
    return out


def load_known():
    p = os.path.join(VERIF, "known_findings.json")
    if not os.path.exists(p):
        return []
    return json.load(open(p))


class Check:
    """Bookkeeping for one property check run."""

    def __init__(self, pid, tier, seed):
        self.pid, self.tier, self.seed = pid, tier, seed
        self.t0 = time.time()
        self.states = 0
        self.transitions = 0
        self.traces = 0
        self.evaluations = 0
        self.samples = []
        self.violations = []      # dicts with at least 'case'
        self.known_hits = []
        self.notes = []
        self.exhaustive = False
        self.explanation = ""
        self.assumptions = []
        self.parts = {}
        self.known = [k for k in load_known() if k.get("property") == pid and k.get("status") == "known"]

    def add_tlc(self, res, part=None):
        self.states += res.distinct
        self.transitions += res.generated
        if part:
            self.parts[part] = {"states": res.distinct, "transitions": res.generated,
                                "wall_s": round(res.wall, 1)}

    def sample(self, s, limit=6):
        if len(self.samples) < limit:
            self.samples.append(s)

    def mismatch(self, rec):
        """Registers a disagreement between model and implementation. `rec['case']` identifies it."""
        for k in self.known:
            if k["case"] == rec.get("case"):
                if k["case"] not in [h["case"] for h in self.known_hits]:
                    self.known_hits.append(k)
                return
        self.violations.append(rec)

    def model_violation(self, res, what):
        self.violations.append({"case": "model:" + what, "kind": "model", "invariant": res.violated,
                                "tlc_tail": res.out[-2500:]})

    def finish(self):
        os.makedirs(REPLAY_DIR, exist_ok=True)
        wall = time.time() - self.t0
        cov = {
            "states": max(self.states, 0),
            "transitions": max(self.transitions, 0),
            "traces_validated_against_impl": self.traces,
            "evaluations": self.evaluations,
            "samples": self.samples if self.samples else ["(none)"],
            "exhaustive": self.exhaustive,
            "explanation": self.explanation,
            "parts": self.parts,
            "known_findings_seen": [k["case"] for k in self.known_hits],
            "notes": self.notes,
        }
        ev = {"property_id": self.pid, "tier": self.tier, "seed": self.seed, "level": "model_checking",
              "coverage": cov, "assumptions": self.assumptions, "wall_s": round(wall, 2),
              "violations": len(self.violations)}
        with open(os.path.join(EVID, self.pid + ".json"), "w") as f:
            json.dump(ev, f, indent=1, sort_keys=True)
            f.write("\n")
        for k in self.known_hits:
            print("KNOWN-FINDING: property=%s %s -- %s" % (self.pid, k["case"], k.get("what", "")))
        if self.violations:
            # one replay file per distinct case (first few), VIOLATION line for the first
            seen = set()
            first = None
            for v in self.violations:
                c = v.get("case", "unknown")
                if c in seen or len(seen) >= 10:
                    continue
                seen.add(c)
                fn = os.path.join(REPLAY_DIR, "%s-%s.json" % (self.pid, re.sub(r"[^A-Za-z0-9_.-]+", "_", c)[:100]))
                with open(fn, "w") as f:
                    json.dump(v, f, indent=1, sort_keys=True)
                    f.write("\n")
                first = first or fn
            log("[%s] %d mismatching case(s): %s" % (self.pid, len(self.violations), ", ".join(sorted(seen))[:1500]))
            print("VIOLATION property=%s replay=%s" % (self.pid, first))
            sys.stdout.flush()
            return 1
        print("OK property=%s tier=%s states=%d transitions=%d traces=%d evaluations=%d wall=%.1fs" % (
            self.pid, self.tier, self.states, self.transitions, self.traces, self.evaluations, wall))
        return 0


def write_lines(path, lines):
    os.makedirs(os.path.dirname(path), exist_ok=True)
    with open(path, "w") as f:
        for l in lines:
            f.write(l)
            f.write("\n")


def split_trace(path, nchunks, is_boundary):
    """Splits an ndjson trace into <= nchunks files at unit boundaries (lines for which
    is_boundary(line) holds start a new unit). Returns [(chunk_path, first_line_number)]."""
    lines = open(path).read().splitlines()
    starts = [i for i, l in enumerate(lines) if is_boundary(l)]
    if not starts or starts[0] != 0:
        starts = [0] + starts
    target = max(1, len(lines) // nchunks)
    chunks, cur_start = [], 0
    for s in starts[1:] + [len(lines)]:
        if s - cur_start >= target or s == len(lines):
            if s > cur_start:
                chunks.append((cur_start, s))
                cur_start = s
    out = []
    for k, (a, b) in enumerate(chunks):
        fn = "%s.part%d" % (path, k)
        write_lines(fn, lines[a:b])
        out.append((fn, a))
    return out, lines


def validate_trace_parallel(module, cfg, path, nchunks=12, boundary='"ev":"begin"', timeout=1800, xmx="3g", tag="tv"):
    """Validates a trace in parallel chunks. Returns (results, lines) where results is a list of
    (accepted, global_line_index_or_None, TlcResult)."""
    import concurrent.futures as cf
    chunks, lines = split_trace(path, nchunks, lambda l: boundary in l[:60])

    def val(c):
        fn, off = c
        ok, un, res = validate_trace(module, cfg, fn, timeout=timeout, xmx=xmx, tag="%s%d" % (tag, off))
        return ok, (off + un if un else None), res
    with cf.ThreadPoolExecutor(max_workers=min(len(chunks), 14)) as ex:
        results = list(ex.map(val, chunks))
    for fn, _ in chunks:
        try:
            os.remove(fn)
        except OSError:
            pass
    return results, lines
