"""C06 -- IDPF: shares reconstruct the programmed point function; caches are transparent.

spec/Idpf.tla (IDPF over an abstract PRG), spec/MC_C06.tla (reconstruction + cache transparency
for every history and every forgetful cache), spec/Idpf_Trace.tla (binding on the real Idpf with
recording wrappers around the real caches)."""
import json
import os
import vlib


def run(chk):
    thorough = chk.tier == "thorough"
    for cfg in (["MC_C06", "MC_C06_b3"] if thorough else ["MC_C06_q"]):
        res = vlib.run_tlc("MC_C06", cfg, workers=16, timeout=3000, tag=cfg, xmx="12g")
        if res.violated:
            chk.model_violation(res, cfg + ":" + res.violated)
        else:
            vlib.tlc_ok(res, cfg)
        chk.add_tlc(res, cfg)
    traces = []
    for cfg, limit in [("MC_C06S_b2", 7536 if thorough else 1500), ("MC_C06S_b3", 6496 if thorough else 1500)] + ([("MC_C06S_b4", 6000)] if thorough else []):
        res = vlib.run_tlc("MC_C06S", cfg, workers=8, timeout=1200, tag=cfg)
        vlib.tlc_ok(res, cfg)
        chk.add_tlc(res, "histories-" + cfg)
        lines = sorted(res.replay)
        step = max(1, len(lines) // limit)
        fn = os.path.join(vlib.WORK, cfg + ".ndjson")
        vlib.write_lines(fn, lines[::step])
        trace = os.path.join(vlib.WORK, "c06_%s.ndjson" % cfg)
        out = vlib.run_harness(["c06", "record", trace, str(chk.seed), "scripts"], stdin_path=fn)
        chk.traces += out[-1]["evaluations"]
        chk.evaluations += out[-1]["extra"]["events"]
        traces.append((cfg, trace))
    trace = os.path.join(vlib.WORK, "c06_deep.ndjson")
    out = vlib.run_harness(["c06", "record", trace, str(chk.seed), "deep", "4" if thorough else "1"])
    chk.traces += out[-1]["evaluations"]
    chk.evaluations += out[-1]["extra"]["events"]
    traces.append(("deep", trace))
    for name, trace in traces:
        results, lines = vlib.validate_trace_parallel("Idpf_Trace", "Idpf_Trace", trace, nchunks=12, tag="c06" + name)
        for ok, un, res in results:
            chk.add_tlc(res, None)
            if not ok:
                e = json.loads(lines[un - 1]) if un else {}
                kind = "?"
                for k in range((un or 1) - 1, -1, -1):
                    b = json.loads(lines[k])
                    if b.get("ev") == "begin":
                        kind = "%s/bits%d/%s" % (b["finner"], b["bits"], b["cache_kind"])
                        break
                chk.mismatch({"case": "idpf/%s/%s" % (kind, e.get("ev")), "event": e, "line": un, "trace": trace})
        if name == "MC_C06S_b2":
            chk.sample({"events": [json.loads(l) for l in lines[:6]]})
    chk.exhaustive = True
    chk.explanation = (
        "Model (exhaustive): for tree depth 2%s, all inputs, 4 PRG tables (Extend/Convert are arbitrary tables), programmed values +-1, 4 key pairs: the two shares "
        "reconstruct beta on the path and 0 off it at every level, and after EVERY history of up to %s evaluations through EVERY forgetful cache (any subset of offered "
        "node states retained: covers no cache, hash map, ring buffers of all capacities, lossy caches) each evaluation equals the cache-free one and cached states are "
        "the true node states. Binding: every evaluation history of length <= 3 (depth 2) / <= 2 (depth 3) over both parties and all prefixes, for all inputs (thinned "
        "in quick), plus seeded histories on trees of depth 8/17/64/129/320 with on-path, sibling and random prefixes and out-of-domain calls, run on the real Idpf over "
        "Poplar1IdpfValue<Field64/Field255> and FieldV17 with recording wrappers around HashMapCache, RingBufferCache(0,1,2,5), a lossy cache and NoCache; TLC checks "
        "every hit against the ghost map of stored node states, every result against the cache-free one, and the reconstruction identity through integer witnesses."
        % (" and 3" if thorough else "", "3 (depth 2) / 2 (depth 3)" if thorough else "2"))
    chk.assumptions = ["the AES/TurboSHAKE PRG is opaque: the reconstruction identity for arbitrary PRGs is decided on the model; the code is bound at result and cache-operation level"]


def replay(chk, path):
    print(open(path).read()[:3000])
    run(chk)
