"""C14 -- multithreaded gadget evaluation is bit-identical to serial under any schedule.

spec/ParSum.tla (rayon's fold/reduce contract, every schedule, with negative controls),
spec/ParSum_Trace.tla (observed schedules through hook H5 + byte equality, gadget level and end to end)."""
import json
import os
import vlib


def run(chk):
    thorough = chk.tier == "thorough"
    cfg = "MC_ParSum_t" if thorough else "MC_ParSum"
    res = vlib.run_tlc("ParSum", cfg, workers=8, timeout=1200, tag=cfg)
    if res.violated:
        chk.model_violation(res, cfg + ":" + res.violated)
    else:
        vlib.tlc_ok(res, cfg)
    chk.add_tlc(res, "contract-all-schedules")
    # negative controls: with a non-zero fold identity or reduce identity the contract must NOT give the serial result
    for neg in ("MC_ParSum_neg1", "MC_ParSum_neg2"):
        r = vlib.run_tlc("ParSum", neg, workers=2, timeout=300, tag=neg)
        chk.add_tlc(r, neg)
        if r.violated != "SameAsSerial":
            raise vlib.ToolError("vacuity guard failed: %s did not produce a counterexample" % neg)
    chk.notes.append("negative controls (non-zero fold identity / reduce identity) are refuted by TLC as they must be")
    trace = os.path.join(vlib.WORK, "c14.ndjson")
    out = vlib.run_harness(["c14", "record", trace, str(chk.seed), chk.tier], timeout=3000)
    chk.evaluations += out[-1]["evaluations"]
    # events are independent of each other (the trace spec keeps no state but its position): validate in parallel chunks
    results, lines = vlib.validate_trace_parallel("ParSum_Trace", "ParSum_Trace", trace, nchunks=14, boundary='{"', timeout=2400, tag="c14", xmx="4g")
    for ok, un, res in results:
        chk.add_tlc(res, "observed-schedules" if "observed-schedules" not in chk.parts else None)
        if not ok:
            e = json.loads(lines[un - 1]) if un else {}
            what = "run/%s/chunks%s/threads%s" % (e.get("field", "").split("::")[-1], e.get("chunks"), e.get("threads")) if e.get("ev") == "run" else "e2e/%s/threads%s" % (e.get("name"), e.get("threads"))
            chk.mismatch({"case": "parsum/" + what, "event": {k: (v if not isinstance(v, list) or len(v) < 30 else v[:30] + ["..."]) for k, v in e.items()}, "line": un})
    if all(ok for ok, _, _ in results):
        chk.traces += len(lines)
    e = json.loads(lines[3])
    chk.sample({"chunks": e["chunks"], "threads": e["threads"], "states": e["states"], "log_head": e["log"][:12]})
    chk.notes.append("largest number of fold states in one observed schedule: %s" % out[-1]["extra"]["max_states"])
    chk.exhaustive = False
    chk.explanation = (
        "Contract (exhaustive): every schedule of rayon's fold/reduce contract for %d chunks (any cut into tasks incl. idle ones, any reduction association, the reduce "
        "identity inserted up to twice anywhere) yields the serial sum; with a non-zero fold identity or reduce identity TLC finds a counterexample (vacuity guard). "
        "Binding: %d eval_poly calls of ParallelSumMultithreaded over Field128/Field64 in pools of %s threads with 1, 2, 3, 23, 300/1000 chunks (fewer chunks than "
        "threads, a single chunk, many) and 1-100 gadget calls: hook H5 logs the creation of every fold state and the chunk each folds; TLC checks the observed schedule "
        "is a behaviour of the contract (each chunk exactly once, into a state created before, ascending within a state) and that the output bytes equal the serial "
        "gadget's on the same input (output buffer pre-filled with ones). End to end: Prio3{SumVec,Histogram,MultihotCountVec}Multithreaded vs their serial counterparts "
        "under identical randomness: public share, input shares, verifier shares, output shares and result byte-identical for every pool size."
        % (6 if thorough else 4, len(lines), "1..16" if thorough else "1, 2, 3, 8, 16"))
    chk.assumptions = ["the schedules of the real work-stealing scheduler are sampled (each one validated), the contract's schedules are enumerated"]


def replay(chk, path):
    print(open(path).read()[:3000])
    run(chk)
