"""Shared driver for the Poplar1 checks (C03, C04): model check of the sketch algebra (MC_Poplar1), then
real Poplar1 executions recorded with a recording XOF and validated against spec/Poplar1_Trace.tla."""
import json
import os
import vlib


def model(chk, cfgs):
    for cfg in cfgs:
        res = vlib.run_tlc("MC_Poplar1", cfg, workers=16, timeout=3000, tag=cfg)
        if res.violated:
            chk.model_violation(res, cfg + ":" + res.violated)
        else:
            vlib.tlc_ok(res, cfg)
        chk.add_tlc(res, cfg)


def record_and_validate(chk, mode, nchunks=10):
    trace = os.path.join(vlib.WORK, "pop_%s.ndjson" % mode)
    out = vlib.run_harness(["poplar1", "record", trace, str(chk.seed), mode, chk.tier], timeout=3000)
    summ = out[-1]
    chk.traces += summ["evaluations"]
    chk.evaluations += summ["extra"]["events"]
    results, lines = vlib.validate_trace_parallel("Poplar1_Trace", "Poplar1_Trace", trace, nchunks=nchunks, tag="pop" + mode, xmx="4g")
    for ok, un, res in results:
        chk.add_tlc(res, None)
        if not ok:
            e = json.loads(lines[un - 1]) if un else {}
            bits = "?"
            for k in range((un or 1) - 1, -1, -1):
                b = json.loads(lines[k])
                if b.get("ev") == "begin":
                    bits = b["bits"]
                    break
            what = e.get("ev", "?") + ("_" + str(e["where"]) if "where" in e else "") + ("_round%s" % e["round"] if "round" in e else "")
            small = {k: (v if not isinstance(v, list) or len(v) < 40 else v[:40] + ["..."]) for k, v in e.items()}
            chk.mismatch({"case": "poplar1/%s/bits%s/%s" % (mode, bits, what), "event": small, "line": un, "trace": trace})
    for l in lines:
        if '"ev":"result"' in l[:30] or '"ev":"outsum"' in l[:30]:
            chk.sample({"mode": mode, "event": json.loads(l)}, limit=4)
            break
    chk.parts["trace-" + mode] = {"events": summ["extra"]["events"], "units": summ["evaluations"]}
