"""C02 -- Prio3 robustness: invalid or tampered reports never yield output shares (exact verdicts on tiny fields)."""
import vlib
from props import prio3_common as pc


def run(chk):
    thorough = chk.tier == "thorough"
    for p in (17, 193) + ((40961,) if thorough else ()):
        scn_raw, n_raw = pc.scenarios(chk, p, kind="run")
        pc.record_and_validate(chk, p, "raw", scn_raw, (n_raw if p != 40961 else min(n_raw, 200)) if thorough else 150, "raw-p%d" % p, nchunks=14)
        scn, n = pc.scenarios(chk, p)
        pc.record_and_validate(chk, p, "tamper", scn, (n if p == 17 else (30 if p == 193 else 8)) if thorough else (12 if p == 17 else 3), "tamper-p%d" % p, nchunks=14)
    chk.exhaustive = False
    chk.explanation = (
        "Impl->spec trace validation of adversarial runs on GF(17)/GF(193)" + ("/GF(40961)" if thorough else "") + ": (raw) every valid and invalid input vector of the "
        "TLC-generated lattice (non-bits, wrong weight, inconsistent claimed norm, out-of-range, near misses) is sharded by the genuine sharding code with an "
        "honestly computed proof (RawInput wrapper over the public Type trait) and verified under three verification keys; (tamper) after honest sharding one bit of "
        "every byte position (strided for long messages) of the public share, each input share, each verifier share and the verifier message is flipped, and "
        "verifier shares are dropped/duplicated, and pairs of messages are altered at once. For every call TLC recomputes the exact verdict (accept/reject at verify_init, verifier_shares_to_message, "
        "verify_next, or undecodable) and every output byte from the recorded XOF table: on a tiny field the model's exact accept set is the oracle, so a relaxed "
        "check (partial seed comparison, missing share-count check, unchecked circuit output) shows up as a verdict mismatch.")
    chk.assumptions = ["arbitrary (non-honest) proofs are explored only as single-bit deviations of honest proofs",
                       "on deployed fields only outcome-level checks apply (k-key rule); see DESIGN.md"]


def replay(chk, path):
    print(open(path).read()[:3000])
    run(chk)
