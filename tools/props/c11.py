"""C11 -- seed streams are chunking-independent; field sampling follows the spec exactly.

spec/Prng.tla (implementation-shaped buffer machine refines the abstract sampler: MC_Prng),
spec/MC_C11.tla (sampling scripts with expected elements; XOF scripts), spec/C11_Trace.tla."""
import json
import os
import vlib


def xof_scripts(chk, scripts, label):
    """Runs XOF scripts on the real XOFs and validates the recorded runs against spec/C11_Trace.tla, one TLC per family."""
    fn = os.path.join(vlib.WORK, "c11_%s_scripts.ndjson" % label)
    vlib.write_lines(fn, scripts)
    trace = os.path.join(vlib.WORK, "c11_%s_trace.ndjson" % label)
    out = vlib.run_harness(["c11", "xof", trace, str(chk.seed)], stdin_path=fn)
    chk.evaluations += out[-1]["extra"]["events"]
    lines = open(trace).read().splitlines()
    by_family = {}
    for l in lines:
        by_family.setdefault(json.loads(l)["family"], []).append(l)
    import concurrent.futures as cf

    def val(item):
        fam, ls = item
        f = os.path.join(vlib.WORK, "c11_%s_%s.ndjson" % (label, fam))
        vlib.write_lines(f, ls)
        return fam, ls, vlib.validate_trace("C11_Trace", "C11_Trace", f, timeout=1500, tag="c11" + label + fam)
    with cf.ThreadPoolExecutor(max_workers=4) as ex:
        for fam, ls, (ok, un, r) in ex.map(val, by_family.items()):
            chk.add_tlc(r, "%s-trace-%s" % (label, fam))
            if ok:
                chk.traces += 1
            else:
                e = json.loads(ls[un - 1]) if un else {}
                chk.mismatch({"case": "xof/%s/%s" % (fam, e.get("api")), "event": {k: v for k, v in e.items() if k != "out"}, "index": un})
    return lines, by_family


def run(chk):
    thorough = chk.tier == "thorough"
    # (1) design: the look-ahead buffer machine refines the abstract sampler, for every stream / rejection pattern / switch schedule
    cfg = "MC_Prng_t" if thorough else "MC_Prng"
    res = vlib.run_tlc("MC_Prng", cfg, workers=16, timeout=2400, tag=cfg, xmx="12g")
    if res.violated:
        chk.model_violation(res, cfg + ":" + res.violated)
    else:
        vlib.tlc_ok(res, cfg)
    chk.add_tlc(res, "prng-refinement")
    # (2) sampling scripts replayed on the real Prng
    cfg = "MC_C11_Prng" if thorough else "MC_C11_PrngQuick"
    res = vlib.run_tlc("MC_C11", cfg, workers=8, timeout=1200, tag=cfg)
    if res.violated:
        chk.model_violation(res, cfg + ":" + res.violated)
    else:
        vlib.tlc_ok(res, cfg)
    chk.add_tlc(res, "sampling-scripts")
    fn = os.path.join(vlib.WORK, cfg + ".ndjson")
    vlib.write_lines(fn, res.replay)
    for o in vlib.run_harness(["c11", "prng"], stdin_path=fn):
        if o["t"] == "mismatch":
            chk.mismatch({"case": o["case"], "detail": o["detail"]})
        elif o["t"] == "sample":
            chk.sample(o["v"], limit=3)
        elif o["t"] == "summary":
            chk.evaluations += o["evaluations"]
    chk.traces += len(res.replay)
    # (3) XOF scripts executed on the real XOFs, validated as views of one function
    res = vlib.run_tlc("MC_C11", "MC_C11_Xof", workers=8, timeout=1200, tag="c11xof")
    vlib.tlc_ok(res, "MC_C11_Xof")
    chk.add_tlc(res, "xof-scripts")
    scripts = sorted(res.replay)
    if not thorough:
        scripts = scripts[::7]   # reads vary fastest in the sorted order; 7 is coprime to the 20 read sequences
    res = vlib.run_tlc("MC_C11", "MC_C11_XofSep", workers=4, timeout=600, tag="c11xofsep")
    vlib.tlc_ok(res, "MC_C11_XofSep")
    chk.add_tlc(res, "xof-separation-scripts")
    scripts += sorted(res.replay)
    lines, by_family = xof_scripts(chk, scripts, "xof")
    chk.sample({"xof_event": {k: v for k, v in json.loads(lines[7]).items() if k != "out"}})
    if thorough:
        ls = list(by_family["fixedkey"][:300])
        e = json.loads(ls[250])
        e["out"][-1] ^= 1
        ls[250] = json.dumps(e)
        f = os.path.join(vlib.WORK, "c11_bad.ndjson")
        vlib.write_lines(f, ls)
        ok, un, _ = vlib.validate_trace("C11_Trace", "C11_Trace", f, tag="c11bad")
        chk.notes.append("binding self-test: one corrupted stream byte -> %s" % ("REJECTED at %s" % un if not ok else "ACCEPTED"))
        if ok:
            raise vlib.ToolError("C11 binding self-test failed")
    chk.exhaustive = True
    chk.explanation = (
        "Design: TLC checks exhaustively (stream prefix of %s bytes with every rejection pattern, element sizes 1/2/3, buffer of 3 elements, every schedule of up "
        "to %s get/into_new_field steps) that the look-ahead-buffer machine of src/prng.rs yields exactly the abstract sampler's elements and never skips or "
        "re-reads a byte. Binding (sampling): scripted byte streams with a rejected chunk before every one of 70 elements (more than two 32-element buffers), "
        "double rejections at the buffer boundaries, and field changes at every offset around the boundaries (incl. the Poplar1 Field64->Field255 pattern and a "
        "1-byte field followed by a 32-byte field) are fed to the real Prng (hook H3) and to the public IntoFieldVec for all seven fields; the elements must be "
        "the accepted chunks, as computed by TLC. Binding (XOFs): every split of a 4-byte tag and binder into <= 3 parts x 20 read-size sequences (aligned, unaligned ending on, inside and beyond block boundaries) straddling 16/32-"
        "byte boundaries, on TurboSHAKE128, fixed-key AES128 (both construction APIs), HMAC-SHA256-AES128 and raw AES128-CTR with two seeds each; TLC checks all "
        "runs are prefix-consistent views of one function per (family, seed, tag, binder), of exactly the requested length, that derived seeds are stream prefixes, and "
        "(separation scripts: multi-part tags/binders differing in exactly one part) that distinct (seed, tag, binder) never share their first 16 bytes."
        % (("15", "6") if thorough else ("12", "5")))
    chk.assumptions = ["the XOF primitives themselves (TurboSHAKE, AES, HMAC) are oracles; their test vectors are in the repository's suite"]


def replay(chk, path):
    print(open(path).read()[:3000])
    run(chk)
