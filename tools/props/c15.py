"""C15 -- DP noise samplers realise the exact discrete Laplace / Gaussian laws, scaled right.

spec/DpSamplers.tla transcribes the CKS20 algorithms as transducers from a tape of uniform random
words to an outcome; spec/MC_C15.tla lets TLC enumerate EVERY tape up to a length bound for every
layer and parameter.  (1) Every complete tape is replayed on the real sampler layer (hook H6) with a
scripted random source: same outcome, exactly the same words consumed.  (2) The driver sums the
exact weights 2^-(bits consumed) of the complete tapes per outcome and checks that the defining law
lies in [explored mass, explored mass + unexplored residual] for every outcome.  (3) Noise addition:
one draw per coordinate at scale sensitivity/epsilon, added modulo the field."""
import json
import os
from decimal import Decimal, getcontext
from fractions import Fraction
import vlib

getcontext().prec = 60


def dexp(x):           # exp of a Fraction as Decimal
    return (Decimal(x.numerator) / Decimal(x.denominator)).exp()


def pmf(layer, n, d):
    """The defining law, as a function outcome -> Decimal."""
    if layer == "below":
        return lambda o: Decimal(1) / Decimal(n) if 0 <= o < n else Decimal(0)
    if layer == "bernoulli":
        return lambda o: Decimal(n) / Decimal(d) if o else 1 - Decimal(n) / Decimal(d)
    if layer in ("bernoulli_exp1", "bernoulli_exp"):
        p = dexp(Fraction(-n, d))
        return lambda o: p if o else 1 - p
    if layer in ("geometric_exp", "laplace", "gaussian") and n == 0:      # degenerate parameter: the point mass at 0
        return lambda o: Decimal(1) if o == 0 else Decimal(0)
    if layer == "geometric_exp":       # Geometric(1 - exp(-n/d)) on 0, 1, 2, ...
        q = dexp(Fraction(-n, d))
        return lambda o: (1 - q) * q ** o
    if layer == "laplace":             # scale t = n/d:  (e^{1/t}-1)/(e^{1/t}+1) * e^{-|x|/t}
        e1 = dexp(Fraction(d, n))
        c = (e1 - 1) / (e1 + 1)
        return lambda o: c * dexp(Fraction(-abs(o) * d, n))
    if layer == "gaussian":            # sigma = n/d:  e^{-x^2/(2 sigma^2)} / sum_z e^{-z^2/(2 sigma^2)}
        s2 = Fraction(n * n, d * d)
        z = sum(dexp(-Fraction(k * k, 1) / (2 * s2)) for k in range(-200, 201))
        return lambda o: dexp(-Fraction(o * o, 1) / (2 * s2)) / z
    raise ValueError(layer)


CASES_QUICK = [("below", 1, 1), ("below", 2, 1), ("below", 3, 1), ("below", 5, 1), ("below", 8, 1), ("below", 13, 1),
               ("bernoulli", 0, 1), ("bernoulli", 1, 1), ("bernoulli", 1, 2), ("bernoulli", 2, 3), ("bernoulli", 3, 5), ("bernoulli", 1, 7),
               ("bernoulli_exp1", 0, 1), ("bernoulli_exp1", 1, 1), ("bernoulli_exp1", 1, 2), ("bernoulli_exp1", 2, 3),
               ("bernoulli_exp", 1, 2), ("bernoulli_exp", 3, 2), ("bernoulli_exp", 2, 1), ("bernoulli_exp", 5, 3),
               ("geometric_exp", 1, 1), ("geometric_exp", 1, 2), ("geometric_exp", 2, 1), ("geometric_exp", 3, 2), ("geometric_exp", 0, 1),
               ("laplace", 1, 1), ("laplace", 1, 2), ("laplace", 2, 1), ("laplace", 3, 2), ("laplace", 0, 1), ("laplace", 16, 1),
               ("gaussian", 1, 1), ("gaussian", 1, 2), ("gaussian", 3, 2), ("gaussian", 0, 1)]


def run(chk):
    thorough = chk.tier == "thorough"
    depth = 21 if thorough else 17     # total random bits inspected along a tape: at most 2^depth complete tapes per case
    cases = CASES_QUICK
    cf = os.path.join(vlib.WORK, "c15_cases.ndjson")
    vlib.write_lines(cf, [json.dumps({"layer": l, "n": n, "d": d}) for (l, n, d) in cases])
    cfgfile = os.path.join(vlib.SPEC, "MC_C15_run.cfg")
    open(cfgfile, "w").write("CONSTANTS D = %d\nINIT Init\nNEXT Next\nINVARIANT Sane\nINVARIANT EmitInv\nCHECK_DEADLOCK FALSE\n" % depth)
    res = vlib.run_tlc("MC_C15", "MC_C15_run", workers=16, timeout=3000, env={"C15_CASES": cf}, tag="c15", xmx="12g")
    if res.violated:
        chk.model_violation(res, "MC_C15:" + res.violated)
    else:
        vlib.tlc_ok(res, "MC_C15")
    chk.add_tlc(res, "tape-enumeration-depth-%d" % depth)
    fn = os.path.join(vlib.WORK, "c15_tapes.ndjson")
    vlib.write_lines(fn, res.replay)
    # (1) replay on the real samplers
    for o in vlib.run_harness(["c15", "replay"], stdin_path=fn, timeout=3000):
        if o["t"] == "mismatch":
            chk.mismatch({"case": o["case"], "detail": o["detail"]})
        elif o["t"] == "sample":
            chk.sample(o["v"], limit=3)
        elif o["t"] == "summary":
            chk.evaluations += o["evaluations"]
    chk.traces += len(res.replay)
    # (2) exact masses from the complete tapes
    mass = {}
    laplace11 = []
    laplace21 = []
    laplace161 = []
    for l in res.replay:
        v = json.loads(l)
        key = (v["layer"], v["n"], v["d"])
        w = Fraction(1, 2 ** sum(v["bits"]))
        mass.setdefault(key, {})
        out = v["out"]
        mass[key][out] = mass[key].get(out, Fraction(0)) + w
        if key == ("laplace", 1, 1) and len(laplace11) < 4000:
            laplace11.append(v)
        if key == ("laplace", 2, 1) and len(laplace21) < 4000:
            laplace21.append(v)
        if key == ("laplace", 16, 1):
            laplace161.append(v)
    report = []
    eps = Decimal(10) ** -45
    for key in cases:
        m = mass.get(key, {})
        explored = sum(m.values(), Fraction(0))
        residual = 1 - explored
        f = pmf(*key)
        worst = Decimal(0)
        for out, w in m.items():
            o = out if not isinstance(out, bool) else bool(out)
            p = f(o)
            wd = Decimal(w.numerator) / Decimal(w.denominator)
            rd = Decimal(residual.numerator) / Decimal(residual.denominator)
            if wd > p + eps or p > wd + rd + eps:
                chk.mismatch({"case": "dp-law/%s/%d_%d/outcome_%s" % (key[0], key[1], key[2], out),
                              "explored_mass": str(wd), "law": str(p), "residual": str(rd)})
            worst = max(worst, p - wd)
        report.append({"layer": key[0], "param": "%d/%d" % (key[1], key[2]), "tapes": sum(1 for _ in m), "explored_mass": float(explored), "residual": float(residual)})
    chk.parts["law-check"] = report
    # (3) noise addition: per-coordinate draws at scale sensitivity / epsilon (here = 1), using enumerated Laplace(1) tapes
    if laplace11:
        noise = []
        types = [{"kind": "Histogram", "len": 3}, {"kind": "SumVec", "bits": 1, "len": 2}, {"kind": "L1BoundSum", "max": 1, "len": 2},
                 {"kind": "SumVec", "bits": 2, "len": 1}, {"kind": "Histogram", "len": 5}]
        k = 0
        for t in types:
            ncoord = t["len"]
            sens = {"Histogram": 2, "SumVec": (2 ** t.get("bits", 0) - 1) * t["len"], "L1BoundSum": 2 * t.get("max", 0)}[t["kind"]]
            for rep in range(30 if thorough else 8):
                tapes = []
                for c in range(ncoord):
                    tapes.append(laplace11[(k * 7919 + c * 104729 + rep * 31) % len(laplace11)]["tape"])
                    k += 1
                noise.append({"t": t, "en": sens, "ed": 1, "agg": [(3 * c + rep) % 5 for c in range(ncoord)], "tapes": tapes})
        # bounds at the top of the integer types: sensitivity 2*max_value = 2^64, 2^128, 2^128 + 2 with epsilon = max_value, so scale = 2
        def limbs(n):
            out = []
            while n:
                out.append(n & 4095)
                n >>= 12
            return out
        if laplace21:
            for fld, mx in [("Field64", 2 ** 63), ("Field64", 2 ** 63 + 5), ("Field128", 2 ** 127), ("Field128", 2 ** 127 + 1), ("Field128", 2 ** 100)]:
                for rep in range(6 if thorough else 2):
                    tapes = [laplace21[(k * 7919 + c * 104729 + rep * 31) % len(laplace21)]["tape"] for c in range(2)]
                    k += 2
                    noise.append({"t": {"kind": "L1BoundSum", "maxl": limbs(mx), "max_s": str(mx), "len": 2, "field": fld}, "en": 0, "ed": 1,
                                  "enl": limbs(mx), "edl": [1], "en_s": str(mx), "ed_s": "1", "sa": 2, "sb": 1,
                                  "agg": [(3 * c + rep) % 5 for c in range(2)], "tapes": tapes})
        # noise of magnitude >= p: over GF(17) with scale 16 (Histogram, epsilon = 1/8) the enumerated Laplace tapes reach |x| = 17..31,
        # so the floor-mod projection of large negative and positive noise into the field is exercised
        big_neg = [v for v in laplace161 if v["out"] <= -17]
        big_pos = [v for v in laplace161 if v["out"] >= 17]
        mid = [v for v in laplace161 if abs(v["out"]) < 17]
        if big_neg and big_pos and mid:
            for rep in range(12 if thorough else 6):
                pick = [big_neg[(rep * 7) % len(big_neg)], big_pos[(rep * 5) % len(big_pos)], mid[(rep * 11) % len(mid)]]
                noise.append({"t": {"kind": "Histogram", "len": 3, "tiny": True}, "en": 1, "ed": 8, "agg": [(3 * c + rep) % 5 for c in range(3)],
                              "tapes": [x["tape"] for x in pick]})
            chk.notes.append("tiny-field noise cases: %d enumerated Laplace(16) tapes with outcome <= -17, %d with outcome >= 17" % (len(big_neg), len(big_pos)))
        nf = os.path.join(vlib.WORK, "c15_noise.ndjson")
        vlib.write_lines(nf, [json.dumps(x) for x in noise])
        r2 = vlib.run_tlc("MC_C15", "MC_C15_noise", workers=4, timeout=900, env={"C15_NOISE": nf, "C15_CASES": ""}, tag="c15n")
        if r2.violated:
            chk.model_violation(r2, "MC_C15_noise:" + r2.violated)
        else:
            vlib.tlc_ok(r2, "MC_C15_noise")
        chk.add_tlc(r2, "noise-cases")
        fn2 = os.path.join(vlib.WORK, "c15_noise_replay.ndjson")
        vlib.write_lines(fn2, r2.replay)
        for o in vlib.run_harness(["c15", "replay"], stdin_path=fn2):
            if o["t"] == "mismatch":
                chk.mismatch({"case": o["case"], "detail": o["detail"]})
            elif o["t"] == "summary":
                chk.evaluations += o["evaluations"]
        chk.traces += len(r2.replay)
    chk.exhaustive = True
    chk.explanation = (
        "Exhaustive in tapes: for %d (layer, parameter) pairs -- uniform below a bound, Bernoulli(n/d), Bernoulli(exp(-g)) for g <= 1 and g > 1, geometric, discrete "
        "Laplace, discrete Gaussian with rational parameters {0, 1/2, 1, 3/2, 2, 2/3, 5/3, ...} -- TLC runs the CKS20 transducers on EVERY tape inspecting up to %d random bits in total "
        "(the alphabet of each draw is all values of exactly the bits it inspects). Every complete tape (%d) is replayed on the real private sampler layer "
        "through hook H6 with a scripted random source: the outcome and the exact number of random words consumed must equal the model's. The exact weights "
        "2^-(bits) of the complete tapes are summed per outcome and the defining law (uniform, n/d, exp(-g), geometric, Laplace, Gaussian; 60-digit decimals) must "
        "lie in [explored, explored + residual] for every outcome; explored mass and residual per case are in coverage.parts['law-check']. Noise addition: "
        "Histogram / SumVec / L1BoundSum over Field64 and Field128 with epsilon chosen so that scale = sensitivity/epsilon = 1: the real add_noise (hook H6) fed with "
        "one enumerated Laplace tape per coordinate must consume exactly those tapes and produce aggregate + noise modulo p, as computed by TLC with the spec's "
        "sensitivity table (a wrong sensitivity or scale makes the per-coordinate tapes misalign)." % (len(cases), depth, len(res.replay)))
    chk.assumptions = ["exactness of the laws is decided up to the reported residual mass (tapes longer than the depth bound)", "parameters are small rationals; big-integer parameters are not explored"]


def replay(chk, path):
    print(open(path).read()[:3000])
    run(chk)
