"""C09 -- field elements behave exactly as integers modulo the prime.

spec/FpOps.tla (meaning + word-level algorithms), spec/MC_C09.tla (model checking, expected-value
tables), spec/C09_Trace.tla over spec/BigNat.tla (witness validation on the deployed fields)."""
import json
import os
import random
import vlib


def _replay(chk, res, part):
    out = vlib.run_harness(["c09", "replay"], stdin_lines=res.replay)
    for o in out:
        if o["t"] == "mismatch":
            chk.mismatch({"case": o["case"], "detail": o["detail"], "part": part})
        elif o["t"] == "sample":
            chk.sample({"part": part, **o["v"]})
        elif o["t"] == "summary":
            chk.evaluations += o["evaluations"]
    chk.traces += len(res.replay)


def run(chk):
    thorough = chk.tier == "thorough"
    os.makedirs(vlib.WORK, exist_ok=True)
    # constants reported by the implementation
    params = os.path.join(vlib.WORK, "c09_params.ndjson")
    p = vlib.run_harness(["c09", "params"])
    vlib.write_lines(params, [json.dumps(x) for x in p])
    # random operands for the 16-bit sets (operands only; expected values come from TLC)
    rng = random.Random(chk.seed)
    primes = {"FP12289": 12289, "FP65521": 65521, "FP61441": 61441, "FP40961": 40961,
              "FP61441S": 61441, "FP12289S": 12289}
    pairs = []
    for name, pr in primes.items():
        for _ in range(40 if thorough else 6):
            pairs.append({"set": name, "x": rng.randrange(pr), "ys": [rng.randrange(pr) for _ in range(100 if thorough else 40)]})
    randf = os.path.join(vlib.WORK, "c09_rand.json")
    json.dump({"pairs": pairs}, open(randf, "w"))
    env = {"C09_PARAMS": params, "C09_RAND": randf}

    for cfg, part in ([("MC_C09_exh", "exhaustive-u8")]) + [("MC_C09_lat", "lattice+random-u16")]:
        res = vlib.run_tlc("MC_C09", cfg, workers=16, timeout=1500, env=env, tag=cfg)
        for l in res.prints:
            if "BADPARAMS" in l:
                chk.mismatch({"case": "params/" + l.split('"')[3], "detail": l})
        if res.violated and res.violated != "ParamsOK":
            chk.model_violation(res, cfg + ":" + res.violated)
        elif not res.violated:
            vlib.tlc_ok(res, cfg)
        chk.add_tlc(res, part)
        _replay(chk, res, part)
    # the algorithms themselves, every odd prime below 2^8, single- and split-word (model only)
    cfg = "MC_C09_model" if thorough else "MC_C09_modelq"
    res = vlib.run_tlc("MC_C09", cfg, workers=16, timeout=1500, env=env, tag=cfg)
    if res.violated:
        chk.model_violation(res, cfg + ":" + res.violated)
    else:
        vlib.tlc_ok(res, cfg)
    chk.add_tlc(res, "algorithm-design")
    # deployed fields: witness trace
    trace = os.path.join(vlib.WORK, "c09_trace.ndjson")
    out = vlib.run_harness(["c09", "record", trace, str(chk.seed), chk.tier])
    n_events = out[-1]["evaluations"]
    lines = open(trace).read().splitlines()
    # validate in parallel chunks (events are independent)
    import concurrent.futures as cf
    nchunk = 8
    size = (len(lines) + nchunk - 1) // nchunk
    chunks = []
    for i in range(nchunk):
        part = lines[i * size:(i + 1) * size]
        if part:
            fn = os.path.join(vlib.WORK, "c09_trace_%d.ndjson" % i)
            vlib.write_lines(fn, part)
            chunks.append((i, fn, part))
    def val(c):
        return c, vlib.validate_trace("C09_Trace", "C09_Trace", c[1], timeout=1500, tag="c09tv%d" % c[0], xmx="2g")
    with cf.ThreadPoolExecutor(max_workers=nchunk) as ex:
        for c, (ok, un, res) in ex.map(val, chunks):
            chk.add_tlc(res, "witness-trace-%d" % c[0])
            if not ok:
                ev = json.loads(c[2][un - 1]) if un else {}
                case = "witness/%s/%s%s" % (ev.get("f"), ev.get("ev"), ("/" + ev["op"]) if "op" in ev else "")
                chk.mismatch({"case": case, "event": ev, "chunk": c[0], "index": un})
            else:
                chk.traces += 1
    chk.evaluations += n_events
    chk.sample({"part": "witness", "event": json.loads(lines[len(lines) // 3])})
    if thorough:
        # binding self-test: a corrupted result must be rejected by the trace spec
        bad = [l for l in lines[:400]]
        # the first add/sub/mul event from position 200 on that carries a non-zero result: its lowest limb is changed
        idx = next(i for i in range(200, len(bad)) if json.loads(bad[i]).get("ev") == "bin" and json.loads(bad[i]).get("z"))
        e = json.loads(bad[idx])
        e["z"][0] = (e["z"][0] + 1) % 4096
        bad[idx] = json.dumps(e)
        fn = os.path.join(vlib.WORK, "c09_trace_bad.ndjson")
        vlib.write_lines(fn, bad)
        ok, un, _ = vlib.validate_trace("C09_Trace", "C09_Trace", fn, timeout=600, tag="c09bad")
        chk.notes.append("binding self-test: corrupted result of one arithmetic event %s" % ("REJECTED at %s" % un if not ok else "ACCEPTED (self-test failed)"))
        if ok:
            raise vlib.ToolError("C09 binding self-test failed: corrupted trace accepted")
    chk.exhaustive = True
    chk.explanation = (
        "Exhaustive: every operand pair of add/sub/mul (and every x for neg/inv/residue, every 8-bit word for montgomery, x^e for all x and a lattice of e) "
        "on the 8-bit instantiations of the generic word-level code (%s), algorithm=meaning checked by TLC and expected values replayed on the real code; "
        "the REDC algorithms model-checked for %s. Not exhaustive: 16-bit instantiations (limb lattice + seeded random pairs), deployed 32/64/128/255-bit "
        "fields (limb-boundary lattice + random, every result judged by TLC through integer witnesses x*y = q*p + z)."
        % ("FP17, FP193, FP241, FP251", "every odd prime < 256 (all pairs)" if thorough else "10 primes < 256 (all pairs)"))
    chk.assumptions = ["TLC evaluates TLA+ integer arithmetic correctly", "num-bigint quotients are only witnesses (checked by TLC)",
                       "Field255::inv/div are documented as unimplemented and not exercised"]


def replay(chk, path):
    rec = json.load(open(path))
    print(json.dumps(rec, indent=1))
    run(chk)
