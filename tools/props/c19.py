"""C19 -- Prio2: 0/1 vectors verify and sum; anything else is rejected.

spec/Prio2.tla (proof packing, f*g = h on summed shares, query-point loop), spec/MC_C19.tla (exact
accept sets on GF(17)/GF(193)), spec/Prio2_Trace.tla (binding through hook H4 and the real VDAF)."""
import json
import os
import vlib


def run(chk):
    thorough = chk.tier == "thorough"
    for cfg in (["MC_C19_p17", "MC_C19_p193"] if thorough else ["MC_C19_p17", "MC_C19_q_p193"]):
        res = vlib.run_tlc("MC_C19", cfg, workers=16, timeout=3000, tag=cfg)
        if res.violated:
            chk.model_violation(res, cfg + ":" + res.violated)
        else:
            vlib.tlc_ok(res, cfg)
        chk.add_tlc(res, cfg)
    for mode, cfg in [("p17", "Prio2_Trace_p17"), ("p193", "Prio2_Trace_p193"), ("p12289", "Prio2_Trace_p12289"), ("real", "Prio2_Trace_p17")]:
        trace = os.path.join(vlib.WORK, "c19_%s.ndjson" % mode)
        out = vlib.run_harness(["c19", "record", mode, str(chk.seed), trace, chk.tier])
        chk.evaluations += out[-1]["evaluations"]
        ok, un, res = vlib.validate_trace("Prio2_Trace", cfg, trace, timeout=2400, tag="c19" + mode)
        chk.add_tlc(res, "trace-" + mode)
        lines = open(trace).read().splitlines()
        if ok:
            chk.traces += 1
        else:
            e = json.loads(lines[un - 1]) if un else {}
            chk.mismatch({"case": "prio2/%s/%s%s" % (mode, e.get("ev"), ("/" + e["kind"]) if "kind" in e else ("/" + e["where"]) if "where" in e else ""),
                          "event": {k: v for k, v in e.items() if k not in ("chains", "qs")}, "line": un})
        if mode == "p17":
            chk.sample({"mode": mode, "event": json.loads(lines[0])})
        if mode == "real":
            for l in lines:
                if '"kind":"nonbinary"' in l:
                    chk.sample({"mode": mode, "event": json.loads(l)})
                    break
    chk.exhaustive = False
    chk.explanation = (
        "Model: over GF(17) (input lengths 1-3) and GF(193) (1-%d) TLC computes exact accept sets over ALL query points: every 0/1 vector is accepted at every non-root "
        "point for all first-node values and sharings; every other vector and every single-element alteration of the proof vector is accepted at <= 2n points -- "
        "with the exception TLC found and the spec keeps explicit (f0 = 0 or g0 = 0: some alterations go unnoticed, but the data stay 0/1). Binding: (a) the field-"
        "generic client/server code (hook H4) on GF(17), GF(193), GF(12289) for lengths straddling powers of two: every proof element (given the observed f0, g0), every "
        "verification message and validity verdict recomputed by TLC; wrong-length shares refused. (b) the real Prio2 for lengths %s: honest batches accepted with exact "
        "sums and canonical codecs of shares/states/verifier shares; non-binary vectors and altered share/proof elements rejected under the k-key rule (k from the spec's "
        "2n/p bound); choose_eval_at on scripted streams that begin with 0-5 roots of unity, judged by TLC through squaring-chain witnesses."
        % (6 if thorough else 2, "1..65535 (16 lengths)" if thorough else "1,2,3,4,7,8,9,255,256,257"))
    chk.assumptions = ["on the 32-bit field values are opaque to TLC except through BigNat witnesses; rejection of bad reports is judged under the k-key rule (6 keys)"]


def replay(chk, path):
    print(open(path).read()[:3000])
    run(chk)
