"""C05 -- FLP prove/query/decide: complete, share-linear, length-exact, refuses wire-domain query points.

spec/GF.tla, spec/Flp.tla (the proof system and all shipped circuits from the draft's definitions),
spec/MC_C05.tla (model checking + behaviours). Binding: spec->impl replay on FieldV17/193/12289/40961."""
import json
import os
import vlib


def _go(chk, cfg, part, timeout=2400):
    res = vlib.run_tlc("MC_C05", cfg, workers=16, timeout=timeout, tag=cfg)
    if res.violated:
        chk.model_violation(res, cfg + ":" + res.violated)
    else:
        vlib.tlc_ok(res, cfg)
    chk.add_tlc(res, part)
    fn = os.path.join(vlib.WORK, cfg + ".ndjson")
    vlib.write_lines(fn, res.replay)
    out = vlib.run_harness(["c05", "replay"], stdin_path=fn)
    for o in out:
        if o["t"] == "mismatch":
            chk.mismatch({"case": o["case"], "detail": o["detail"], "part": part})
        elif o["t"] == "sample":
            chk.sample({"part": part, **o["v"]})
        elif o["t"] == "summary":
            chk.evaluations += o["evaluations"]
    chk.traces += len(res.replay)
    return res


def run(chk):
    thorough = chk.tier == "thorough"
    for p in (17, 193, 40961) + ((12289,) if thorough else ()):
        _go(chk, "MC_C05_enc_p%d" % p, "encode-p%d" % p)
        _go(chk, "MC_C05_probe_p%d" % p, "length-probes-p%d" % p)
    _go(chk, "MC_C05_p17", "runs-p17")
    for p in (193, 40961) + ((12289,) if thorough else ()):
        _go(chk, ("MC_C05_p%d" if thorough else "MC_C05_q_p%d") % p, "runs-p%d" % p)
    if thorough:
        _go(chk, "MC_C05_exh", "exhaustive-randomness-p17")
    chk.exhaustive = thorough
    chk.explanation = (
        "Model: completeness, share-linearity (1-3 shares), exact lengths, honest-proof gadget test, encode/truncate relations hold in every explored state. "
        "Binding: every behaviour (circuit x valid+invalid input x randomness patterns incl. wire-domain roots of unity x 1-3 shares) replayed through the real "
        "prove/query/decide/valid/truncate/encode_measurement/*_len on the tiny-field instantiations and compared element by element; argument lengths +-1 "
        "must be refused exactly as the spec's domain predicate says. "
        + ("Exhaustive sub-space (thorough): Count, HigherDegree, Sum(max 1) over GF(17) with ALL inputs, ALL prover randomness and ALL query points."
           if thorough else "Quick tier: GF(17) full pattern family; GF(193)/GF(40961) reduced family."))
    chk.assumptions = ["randomness vectors are drawn from affine-pattern families (plus all roots-of-unity query points), not all of GF(P)^n, except in the exhaustive sub-space",
                       "circuits are the small instances listed in MC_C05.tla (chunk lengths dividing and not dividing, power-of-two and non-power-of-two bounds)"]


def replay(chk, path):
    print(open(path).read())
    run(chk)
