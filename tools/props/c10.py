"""C10 -- NTT and Lagrange-basis routines equal their textbook definitions; size violations are errors.

spec/Ntt.tla (definitions by direct evaluation / interpolation), spec/MC_C10.tla (basis enumeration,
verdict tables). Binding: replay through hook H2 on the tiny fields; size/capacity verdicts also on
Field64 / Field128 / FieldPrio2."""
import os
import vlib


def _go(chk, cfg, mode="replay", timeout=5400):
    res = vlib.run_tlc("MC_C10", cfg, workers=16, timeout=timeout, tag=cfg)
    if res.violated:
        chk.model_violation(res, cfg + ":" + res.violated)
    else:
        vlib.tlc_ok(res, cfg)
    chk.add_tlc(res, cfg)
    fn = os.path.join(vlib.WORK, cfg + ".ndjson")
    vlib.write_lines(fn, res.replay)
    out = vlib.run_harness(["c10", mode], stdin_path=fn)
    for o in out:
        if o["t"] == "mismatch":
            chk.mismatch({"case": o["case"], "detail": o["detail"], "config": cfg})
        elif o["t"] == "sample":
            chk.sample({"config": cfg, **o["v"]}, limit=4)
        elif o["t"] == "summary":
            chk.evaluations += o["evaluations"]
    chk.traces += len(res.replay)


def run(chk):
    thorough = chk.tier == "thorough"
    _go(chk, "MC_C10_p17")
    _go(chk, "MC_C10_big", mode="big")
    if thorough:
        for c in ("MC_C10_p193", "MC_C10_p12289", "MC_C10_p40961"):
            _go(chk, c)
    else:
        for c in ("MC_C10_q_p193", "MC_C10_q_p12289", "MC_C10_q_p40961"):
            _go(chk, c)
    chk.exhaustive = True
    chk.explanation = (
        "Every routine is linear in its vector argument, so full matrices are compared on the unit basis: GF(17) all power-of-two sizes 1..16 (every basis vector; "
        "forward, shifted, inverse transform; inputs shorter/longer than the size; batched Lagrange evaluation at every node, at the next-order root and at "
        "generic points; extension from every partial length; doubling; Lagrange multiplication on basis pairs; root tables; range-check polynomials); "
        + ("GF(193) sizes <= 64 (every basis vector), GF(12289) and GF(40961) <= 64 on 8 basis vectors + patterns" if thorough else
           "GF(193)/GF(12289)/GF(40961) sizes <= 16 in the quick tier")
        + ". Expected outputs are computed by TLC from definitions by direct evaluation/interpolation. Size/capacity verdict tables (OutputTooSmall, "
          "SizeTooLarge at 2^20 and 2^19 for the shifted transform, SizeInvalid) are replayed on tiny fields and on Field64/Field128/FieldPrio2.")
    chk.assumptions = ["sizes above 2^7 are not evaluated numerically by TLC (only error boundaries there, and indirectly C01/C05)", "size 0 is outside the routines' domain and not probed"]


def replay(chk, path):
    print(open(path).read()[:3000])
    run(chk)
