"""C03 -- Poplar1 end-to-end: honest reports give exact prefix counts at every level."""
from props import poplar1_common as pc


def run(chk):
    thorough = chk.tier == "thorough"
    pc.model(chk, ["MC_Poplar1_k1", "MC_Poplar1_k2"])
    pc.record_and_validate(chk, "honest")
    pc.record_and_validate(chk, "deep", nchunks=4)
    pc.record_and_validate(chk, "pair", nchunks=2)
    chk.exhaustive = False
    chk.explanation = (
        "Model: over GF(17) with 1-2 candidate prefixes TLC checks, for ALL verification randomness, that every well-formed report (one-hot or zero data vector, "
        "authenticators auth*y, A = -2a+auth, B = a^2+b-a*auth+c, any additive split) is accepted in the two-round sketch and that the output shares sum to the data "
        "vector. Binding: real Poplar1 (recording XOF) on trees of 1/2/3/4/8 bits: batches with repeated inputs, the complete heavy-hitters iteration (every level, "
        "candidates extended from the survivors) and parameter sequences that jump levels with arbitrary candidate sets (path, sibling, random); trees of 64/300/21850"
        + ("/65536" if thorough else "") + " bits at levels 0, middle, 21845/21846 (the fast-forward of correlated randomness), bits-2 and bits-1. TLC validates the exact XOF query "
        "of every call (ctx, nonce, aggregator id, level, usage), the message grammars, that the input shares carry the raw IDPF keys and seeds, that the verifier state carries "
        "this level's A,B shares and the prefix count, the arithmetic of both sketch rounds on the recorded shares (BigNat witnesses), the exact counts per prefix against the "
        "inputs, and the heavy-hitters result. C17's Poplar1 clause: pairs of shardings with identical randomness leave both input shares byte-identical.")
    chk.assumptions = ["the IDPF output shares are opaque (AES PRG): their correctness is C06; field-level algebra of the sketch is decided on the model and through witnesses"]


def replay(chk, path):
    print(open(path).read()[:3000])
    run(chk)
