"""C16 -- fallible public operations reject bad arguments with errors, never panics.

spec/ApiDomain.tla states, per constructor / operation, the admissible-argument predicate (over exact
big integers); the driver builds the boundary lattice, TLC judges every case (Ok / Err / Either), the
harness executes each case on the real API in a journaling child process (catch_unwind, overflow
checks on, allocation cap) and must observe the judged class; accepted instances must be usable."""
import json
import os
import subprocess
import vlib

P64 = 2 ** 64 - 2 ** 32 + 1
P128 = 2 ** 128 - 7 * 2 ** 66 + 1
UMAX = 2 ** 64 - 1


def limbs(n):
    out = []
    while n:
        out.append(n & 4095)
        n >>= 12
    return out


def num(case, key, v):
    case[key] = limbs(v)
    case[key + "_s"] = str(v)


def lattice():
    cases = []

    def add(op, ident, **kw):
        c = {"op": op, "id": "%s/%s" % (op, ident)}
        for k, v in kw.items():
            if isinstance(v, int) and not isinstance(v, bool) and k not in ("nagg", "np", "count", "level", "bits", "mbits", "mlen", "weight", "want", "got", "plen", "extra", "pn", "sn"):
                num(c, k, v)
            elif isinstance(v, list) and k == "m":
                c[k] = [limbs(x) for x in v]
                c[k + "_s"] = [str(x) for x in v]
            else:
                c[k] = v
        cases.append(c)

    def name(v):
        table = {0: "0", UMAX: "usize_max", UMAX - 1: "usize_max-1", 2 ** 32 - 1: "u32_max", 2 ** 32 - 2: "u32_max-1", 2 ** 32: "2^32", 2 ** 62: "2^62", 2 ** 63: "2^63",
                 2 ** 63 - 1: "2^63-1", P64: "p64", P64 - 1: "p64-1", P64 + 1: "p64+1", P128: "p128", P128 - 1: "p128-1", P128 + 1: "p128+1", 2 ** 128 - 1: "u128_max",
                 2 ** 64: "2^64", 2 ** 127: "2^127", 2 ** 16: "2^16", 2 ** 19: "2^19", 2 ** 19 - 1: "2^19-1", 2 ** 20: "2^20"}
        return table.get(v, str(v))
    fields = {"Field64": (P64, UMAX), "Field128": (P128, 2 ** 128 - 1)}
    for f, (p, imax) in fields.items():
        maxes = sorted({0, 1, 2, 3, 255, 256, 2 ** 32 - 1, 2 ** 32, 2 ** 63, p - 2, p - 1, min(p, imax), min(p + 1, imax), imax})
        for m in maxes:
            add("sum_new", "%s/max=%s" % (f, name(m)), f=f, max=m)
        lens = [0, 1, 2, 3, 2 ** 16, 2 ** 32 - 2, 2 ** 32 - 1, 2 ** 32, 2 ** 62, 2 ** 63, UMAX - 1, UMAX]
        chunks = [0, 1, 2, 3, 2 ** 32, 2 ** 62, 2 ** 63 - 1, 2 ** 63, UMAX]
        for m in [0, 1, 3, 2 ** 32, p - 1, min(p, imax)]:
            for ln in lens:
                for ch in [0, 1, 3, 2 ** 63, UMAX]:
                    add("sumvec_new", "%s/max=%s,len=%s,chunk=%s" % (f, name(m), name(ln), name(ch)), f=f, max=m, len=ln, chunk=ch)
                    add("l1boundsum_new", "%s/max=%s,len=%s,chunk=%s" % (f, name(m), name(ln), name(ch)), f=f, max=m, len=ln, chunk=ch)
        for ln in lens:
            for ch in chunks:
                add("histogram_new", "%s/len=%s,chunk=%s" % (f, name(ln), name(ch)), f=f, len=ln, chunk=ch)
        for ln in [0, 1, 3, 2 ** 32 - 2, 2 ** 32 - 1, UMAX]:
            for w in [0, 1, 2, 3, 4, 2 ** 32, min(p - 1, UMAX), min(p, UMAX), UMAX]:
                for ch in [0, 1, 2, 2 ** 63, UMAX]:
                    add("multihot_new", "%s/len=%s,maxw=%s,chunk=%s" % (f, name(ln), name(w), name(ch)), f=f, len=ln, maxw=w, chunk=ch)
    for nagg in [0, 1, 2, 3, 254, 255]:
        for np_ in [0, 1, 2, 255]:
            add("prio3_new", "nagg=%d,np=%d" % (nagg, np_), nagg=nagg, np=np_)
        add("alias_count", "nagg=%d" % nagg, nagg=nagg)
        for m in [0, 1, 2 ** 63, P64 - 1, UMAX]:
            add("alias_sum", "nagg=%d,max=%s" % (nagg, name(m)), nagg=nagg, f="Field64", max=m)
        for m in [0, 1, P128 - 1, P128, 2 ** 128 - 1]:
            add("alias_average", "nagg=%d,max=%s" % (nagg, name(m)), nagg=nagg, f="Field128", max=m)
        for (m, ln, ch) in [(1, 3, 2), (0, 3, 2), (3, 0, 2), (3, 3, 0), (2 ** 127, 2, 3), (P128, 2, 2), (1, 2, UMAX), (1, UMAX, 2), (1, 2 ** 62, 2 ** 62)]:
            add("alias_sumvec", "nagg=%d,max=%s,len=%s,chunk=%s" % (nagg, name(m), name(ln), name(ch)), nagg=nagg, f="Field128", max=m, len=ln, chunk=ch)
        for (ln, ch) in [(4, 2), (0, 2), (4, 0), (4, 5), (2, UMAX), (2 ** 32 - 1, 2), (2 ** 32 - 2, 2 ** 16), (UMAX, 3)]:
            add("alias_histogram", "nagg=%d,len=%s,chunk=%s" % (nagg, name(ln), name(ch)), nagg=nagg, len=ln, chunk=ch)
    for n in [0, 1, 2, 255, 256, 2 ** 16, 2 ** 19 - 2, 2 ** 19 - 1, 2 ** 19, 2 ** 20, 2 ** 32 - 1, 2 ** 32, 2 ** 63 - 1, 2 ** 63, UMAX - 1, UMAX]:
        add("prio2_new", "n=%s" % name(n), n=n)
    for (n, d) in [(0, 1), (1, 0), (0, 0), (1, 1), (UMAX, 1), (1, UMAX), (UMAX, UMAX)]:
        add("rational", "%s/%s" % (name(n), name(d)), n=n, d=d)
        if d:
            for op in ("zcdp_budget", "puredp_budget", "laplace_new", "gaussian_new"):
                add(op, "%s/%s" % (name(n), name(d)), n=n, d=d)
    # measurements
    for m in [0, 1, 6, 7, 8, 2 ** 32, UMAX]:
        add("shard_sum", "max=6,m=%s" % name(m), max=6, m=m)
    for m in [0, 3, 4, 5, 2 ** 32, UMAX]:
        add("shard_histogram", "len=4,m=%s" % name(m), len=4, m=m)
    for mv in [[1, 2, 3], [3, 3, 3], [0, 0, 4], [4, 0, 0], [1, 2], [1, 2, 3, 0], [], [2 ** 127, 0, 0]]:
        add("shard_sumvec", "max=3,len=3,m=%s" % json.dumps([name(x) for x in mv]), max=3, len=3, m=mv)
    for mv in [[1, 0, 1, 0], [1, 1, 1, 0], [1, 1, 1, 1], [0, 0, 0, 0], [1, 0, 1], [1, 0, 1, 0, 0], []]:
        add("shard_multihot", "len=4,maxw=2,m=%s" % json.dumps(mv), len=4, maxw=2, m=mv, weight=sum(mv))
    for mv in [[3, 0], [0, 3], [1, 2], [2, 2], [3, 3], [4, 0], [0, 0], [1], [1, 1, 1], [], [UMAX, 0]]:
        add("shard_l1boundsum", "max=3,len=2,m=%s" % json.dumps([name(x) for x in mv]), max=3, len=2, m=mv)
    # bounds at the top of the field: in-range elements whose L1 norm passes the bound, the modulus or the integer width
    for mx, mv in [(P128 - 1, [P128 - 2, 1, 3]), (P128 - 1, [P128 - 1, 0, 0]), (P128 - 1, [P128 - 1, 1, 0]), (P128 - 1, [1, 2, 3]),
                   (2 ** 127, [2 ** 127, 2 ** 127, 5]), (2 ** 127, [2 ** 127, 0, 0]), (2 ** 127, [2 ** 126, 2 ** 126, 0]), (2 ** 127, [2 ** 126, 2 ** 126, 1]),
                   (2 ** 64, [2 ** 64, 1, 0]), (2 ** 64, [2 ** 63, 2 ** 63, 0])]:
        add("shard_l1boundsum", "max=%s,len=3,m=%s" % (name(mx), json.dumps([name(x) for x in mv])), max=mx, len=3, m=mv)
    for ml in [0, 3, 4, 5, 8]:
        add("shard_prio2", "n=4,mlen=%d" % ml, n=4, mlen=ml)
    for mb in [0, 1, 7, 8, 9, 16]:
        add("shard_poplar1", "bits=8,mbits=%d" % mb, bits=8, mbits=mb)
    # roles and counts
    for nagg in [1, 2, 3]:
        for kind in ["count", "histogram", "sumvec2proofs", "sum"]:
            for ident in [0, 1, nagg - 1, nagg, nagg + 1, 255, 256, 2 ** 32, UMAX]:
                add("vinit_prio3", "%s,nagg=%d,id=%s" % (kind, nagg, name(ident)), nagg=nagg, aid=ident, kind=kind)
            for cnt in [0, 1, nagg - 1, nagg, nagg + 1, 2 * nagg, 255, 256, 256 + nagg, 512 + nagg]:
                add("s2m_prio3", "%s,nagg=%d,count=%d" % (kind, nagg, cnt), nagg=nagg, count=cnt, kind=kind)
    for ident in [0, 1, 2, 3, 256, 257, UMAX]:
        add("vinit_prio2", "id=%s" % name(ident), nagg=2, aid=ident)
        add("vinit_poplar1", "id=%s" % name(ident), nagg=2, aid=ident)
    for cnt in [0, 1, 2, 3, 258]:
        add("s2m_prio2", "count=%d" % cnt, nagg=2, count=cnt)
        add("s2m_poplar1", "count=%d" % cnt, nagg=2, count=cnt)
    for lv in [0, 6, 7, 8, 9, 65535]:
        add("vinit_poplar1_level", "bits=8,level=%d" % lv, bits=8, level=lv)
    for plen in [0, 1, 2, 7, 8, 9, 255, 256, 65534, 65535, 65536, 65537, 70000, 131072]:
        for shape in ["one", "two_sorted", "three_sorted", "two_unsorted", "two_equal", "mixed_length", "empty"]:
            if (plen < 2 and shape == "three_sorted") or (plen == 0 and shape in ("two_sorted", "two_unsorted")):
                continue
            add("aggparam_new", "plen=%d,%s" % (plen, shape), plen=plen, shape=shape)
    for level in [0, 6, 7, 8, 255, 256, 65534, 65535]:
        for count, extra, srt in [(1, 0, True), (2, 0, True), (0, 0, True), (1, 1, True), (1, -1, True), (2, 0, False), (3, 0, True)]:
            if level == 0 and count > 2:
                continue
            add("aggparam_decode", "level=%d,count=%d,extra=%d,sorted=%s" % (level, count, extra, srt), level=level, count=count, extra=extra, sorted=srt)
    for lit, cls in [("0.0", "zero"), ("-0.0", "negzero"), ("0.25", "positive"), ("1.0", "positive"), ("3.4e38", "positive"), ("1e-40", "positive"),
                     ("-0.5", "negative"), ("-1.0", "negative"), ("-1e-40", "negative"), ("-3.4e38", "negative"), ("NaN", "nan"), ("inf", "inf"), ("-inf", "inf")]:
        add("rational_f32", lit, lit=lit, cls=cls)
    for ln in [0, 2, 3, 4]:
        for op in ("agg_wrong_len", "unshard_wrong_len", "truncate_len", "decode_result_len"):
            add(op, "want=3,len=%d" % ln, want=3, got=ln)
    for pleaf in (False, True):
        for sleaf in (False, True):
            for pn, sn in [(1, 1), (2, 2), (3, 3), (2, 1), (1, 2), (2, 3), (3, 1)]:
                for op in ("poplar1_unshard", "poplar1_aggregate"):
                    add(op, "param=%s/%d,shares=%s/%d" % ("leaf" if pleaf else "inner", pn, "leaf" if sleaf else "inner", sn), pleaf=pleaf, sleaf=sleaf, pn=pn, sn=sn)
    add("wrong_role_share", "helper_share_under_id0")
    add("wrong_role_share", "leader_share_under_id1")
    for k in [0, 1, 3]:
        add("unshard_count", "nagg=2,count=%d" % k, nagg=2, count=k)
    seen, uniq = set(), []
    for c in cases:
        if c["id"] not in seen:
            seen.add(c["id"])
            uniq.append(c)
    return uniq


def run(chk):
    cases = lattice()
    os.makedirs(vlib.WORK, exist_ok=True)
    cf = os.path.join(vlib.WORK, "c16_cases.ndjson")
    vlib.write_lines(cf, [json.dumps(c) for c in cases])
    res = vlib.run_tlc("MC_C16", "MC_C16", workers=8, timeout=1200, env={"C16_CASES": cf}, tag="c16")
    vlib.tlc_ok(res, "MC_C16")
    chk.add_tlc(res, "domain-judgement")
    verdict = {}
    for l in res.replay:
        v = json.loads(l)
        verdict[v["id"]] = v
    if len(verdict) != len(cases):
        raise vlib.ToolError("TLC judged %d of %d cases" % (len(verdict), len(cases)))
    todo = []
    for c in cases:
        h = {k: v for k, v in c.items() if not (isinstance(v, list) and k + "_s" in c)}
        h["expect"] = verdict[c["id"]]["expect"]
        h["usable"] = verdict[c["id"]]["usable"]
        todo.append(h)
    # journaling child process: an abort (allocation failure, stack overflow) is attributed to the case in flight
    start = 0
    done = {}
    env = dict(os.environ, CONFORM_ALLOC_LIMIT=str(2 ** 31), RUST_BACKTRACE="0", RUST_MIN_STACK=str(64 * 1024 * 1024))
    rounds = 0
    while start < len(todo) and rounds < 40:
        rounds += 1
        inp = "\n".join(json.dumps(t) for t in todo[start:]) + "\n"
        p = subprocess.run([vlib.HARNESS_BIN, "c16", "run"], input=inp, capture_output=True, text=True, env=env, timeout=1800)
        inflight = None
        for line in p.stdout.splitlines():
            if line.startswith("START "):
                inflight = line[6:]
            elif line.startswith("DONE "):
                r = json.loads(line[5:])
                done[r["id"]] = r
                inflight = None
        if inflight is None and p.returncode == 0:
            break
        if inflight is None:
            raise vlib.ToolError("c16 harness exited with %d outside a case: %s" % (p.returncode, p.stderr[-500:]))
        done[inflight] = {"id": inflight, "outcome": "Abort", "detail": "process died (exit %d): %s" % (p.returncode, p.stderr.strip()[-300:])}
        start = [t["id"] for t in todo].index(inflight) + 1
    counts = {"Ok": 0, "Err": 0, "Either": 0}
    for t in todo:
        r = done.get(t["id"])
        if r is None:
            raise vlib.ToolError("case %s was not executed" % t["id"])
        chk.evaluations += 1
        counts[t["expect"]] += 1
        out = r["outcome"]
        bad = None
        if out in ("Panic", "Abort"):
            bad = out.lower()
        elif t["expect"] == "Err" and out != "Err":
            bad = "accepted" if out == "Ok" else out.lower()
        elif t["expect"] == "Ok" and out != "Ok":
            bad = "refused" if out == "Err" else out.lower()
        if bad:
            chk.mismatch({"case": "api/%s/%s" % (t["id"], bad), "expected": t["expect"], "observed": r, "args": {k: v for k, v in t.items() if k.endswith("_s") or isinstance(v, (int, str))}})
        if len(chk.samples) < 5 and chk.evaluations % 97 == 1:
            chk.sample({"id": t["id"], "expect": t["expect"], "outcome": out})
    chk.traces += len(todo)
    chk.exhaustive = False
    chk.explanation = (
        "%d calls on the boundary lattice of every argument (0, 1, 2, 3, 2^k-1, 2^k, p-1, p, p+1, integer-type MAX, lengths +-1, ids n-1/n/n+1/usize::MAX, share counts "
        "0/n-1/n+1/256+n) of the FLP type constructors (Field64 and Field128), Prio3::new and its aliases, Prio2::new, the DP budget/distribution constructors, "
        "shard with out-of-range / wrong-length measurements for every type, verify_init with out-of-range identifiers and levels, verifier_shares_to_message with "
        "wrong counts, aggregate/unshard/truncate/decode_result with wrong lengths. TLC judges each case from ApiDomain.tla (%d Ok, %d Err, %d Either); the real "
        "API must return an error for every Err case (no panic, overflow, abort or unusable instance) and a working instance (lengths callable; shard->verify->"
        "aggregate->unshard round trip within the memory budget) for every Ok case." % (len(todo), counts["Ok"], counts["Err"], counts["Either"]))
    chk.assumptions = ["argument values are a lattice, not the whole usize space", "allocation-proportional follow-ups only below 3000 elements (memory budget)"]


def replay(chk, path):
    print(open(path).read()[:3000])
    run(chk)
