"""C07 -- wire encodings are canonical, round-trip, and report their exact length."""
from props import codec_common as cc


def run(chk):
    fn, n = cc.strings(chk, chk.tier)
    chk.traces += n
    cc.replay(chk, fn, only={"verdict", "not_canonical", "encoded_len", "panic"})
    cc.aggparam(chk)
    chk.exhaustive = False
    chk.explanation = (
        "TLC enumerates, for every message type and decoding parameter (integers, seeds, all 8 fields, length-prefixed vectors, Prio3 public/input/verifier "
        "shares, messages, states, output/aggregate shares and ping-pong continuations over 6 circuits x 4 fields x {2,3} aggregators x {1,2} proofs x both roles, "
        "Poplar1 public share for 7 bit lengths, input share with 16/32-byte seeds, verifier state, field vectors in their three decoding contexts, verifier "
        "message, Prio2 share/state/verifier share/output, ping-pong message), honest-shaped strings in two value patterns (incl. p-1 elements) and one deviation "
        "at a time: element = p, p+1 or all-ones at first/middle/last position, unknown tags, length prefixes too big / off by one / all-ones / not a multiple of "
        "the item size, non-zero padding bits, counts too large, truncations, extensions, empty input. The verdict comes from the total decoder Codec!Dec; the real "
        "decoder must agree, re-encode every accepted string to itself and advertise exactly its length. Aggregation parameters: the AggParam.tla constructor/decoder enumeration (every list of <= 3 prefixes, every single-bit flip incl. every padding bit, header extremes) is replayed here too.")
    chk.assumptions = ["values inside opaque payloads are arbitrary bytes", "decoding parameters with bits >= 1 (Poplar1::new is infallible and does not reject 0)"]


def replay(chk, path):
    print(open(path).read()[:3000])
    run(chk)
