"""Shared driver for the Prio3 trace-validation checks (C01, C02, C17, C18):
TLC generates the scenario lattice (circuits x measurements / invalid inputs: the MC_C05 enumeration),
the harness executes the scenarios on the real Prio3 over tiny fields with a recording XOF, and TLC
validates the recorded trace against spec/Prio3.tla, recomputing every byte and verdict."""
import json
import os
import vlib

GENS = {17: "MC_C05_enc_p17", 193: "MC_C05_enc_p193", 40961: "MC_C05_enc_p40961", 12289: "MC_C05_enc_p12289", "big193": "MC_C05_encbig_p193", "huge193": "MC_C05_enchuge_p193"}
RUNS = {17: "MC_C05_p17", 193: "MC_C05_q_p193", 40961: "MC_C05_q_p40961"}


def scenarios(chk, p, kind="enc"):
    """TLC-generated scenario lines (circuit x measurement, or circuit x input vector)."""
    cfg = GENS[p] if kind == "enc" else RUNS[p]
    p = 193 if p in ("big193", "huge193") else p
    fn = os.path.join(vlib.WORK, cfg + ".scn.ndjson")
    res = vlib.run_tlc("MC_C05", cfg, workers=16, timeout=1500, tag="scn" + cfg)
    vlib.tlc_ok(res, cfg)
    chk.add_tlc(res, "scenarios-" + cfg)
    lines = res.replay
    if kind != "enc":
        # keep one line per (circuit, input): invalid and valid inputs with honest proofs
        seen, keep = set(), []
        for l in lines:
            v = json.loads(l)
            k = json.dumps([v["c"], v["inp"]])
            if k not in seen:
                seen.add(k)
                keep.append(l)
        lines = keep
    vlib.write_lines(fn, sorted(lines))
    return fn, len(lines)


def thin(scn_file, every, limit, pred=None):
    """Deterministic sub-lattice of a scenario file (every k-th line, optionally filtered)."""
    lines = [l for l in open(scn_file).read().splitlines() if pred is None or pred(l)]
    out = scn_file + ".thin%d" % every
    vlib.write_lines(out, lines[::every][:limit])
    return out


def record_and_validate(chk, p, family, scn_file, max_units, label, nchunks=12):
    trace = os.path.join(vlib.WORK, "p3_%s_%s_p%d.ndjson" % (family, label.replace("/", "_"), p))
    out = vlib.run_harness(["prio3", "record", family, str(chk.seed), trace, str(max_units)], stdin_path=scn_file)
    summ = out[-1]
    if summ["extra"].get("panics", 0):
        # a panic inside the code under test is data: it is an event the spec cannot match
        pass
    results, lines = vlib.validate_trace_parallel("Prio3_Trace", "Prio3_Trace_p%d" % p, trace, nchunks=nchunks, timeout=5400, tag="p3%s%d" % (family, p))
    units = 0
    for ok, un, res in results:
        chk.add_tlc(res, None)
        if not ok:
            ev = json.loads(lines[un - 1]) if un else {}
            # the circuit of the unit this event belongs to
            c = {}
            for k in range((un or 1) - 1, -1, -1):
                e = json.loads(lines[k])
                if e.get("ev") == "begin":
                    c = e
                    break
            kind = c.get("c", {}).get("kind", "?")
            case = "prio3/p%d/%s/%s/%s" % (p, family, kind, ev.get("ev", "?") + ("_" + ev["what"] if "what" in ev else "") + ("_" + ev["where"] if "where" in ev else ""))
            chk.mismatch({"case": case, "event": ev, "unit": c, "line": un, "trace": trace})
    chk.traces += summ["evaluations"]
    chk.evaluations += summ["extra"]["events"]
    chk.parts[label] = {"units": summ["evaluations"], "events": summ["extra"]["events"]}
    # one sample event
    for l in lines:
        if '"ev":"vinit"' in l[:40] or '"ev":"shard"' in l[:40]:
            e = json.loads(l)
            chk.sample({"family": family, "p": p, "event": {k: (v if not isinstance(v, list) or len(v) < 12 else v[:12] + ["..."]) for k, v in e.items()}}, limit=3)
            break
    return trace, lines


def self_test(chk, p, trace_lines):
    """Binding self-test: corrupt one output byte of one recorded event; the trace must be rejected."""
    import copy
    lines = list(trace_lines[:600])
    for i, l in enumerate(lines):
        e = json.loads(l)
        if e.get("ev") == "vinit" and e.get("ok") and e["vshare"]:
            e["vshare"][0] ^= 1
            lines[i] = json.dumps(e)
            fn = os.path.join(vlib.WORK, "p3_selftest.ndjson")
            vlib.write_lines(fn, lines)
            ok, un, _ = vlib.validate_trace("Prio3_Trace", "Prio3_Trace_p%d" % p, fn, tag="p3self")
            chk.notes.append("binding self-test: flipped one bit of a recorded verifier share at event %d -> %s" % (i + 1, "REJECTED at %s" % un if not ok else "ACCEPTED"))
            if ok:
                raise vlib.ToolError("Prio3 binding self-test failed: corrupted trace accepted")
            return
