"""C13 -- aggregation is independent of order, grouping and batching; bad shares are refused.

spec/Aggregation.tla: partial aggregates, accumulate/merge in any order and tree shape, refused
incompatible shares leaving the accumulator unchanged. Every script replayed on the real types."""
import json
import os
import vlib


def _go(chk, cfg, family, workers=16, timeout=2400):
    res = vlib.run_tlc("MC_C13", cfg, workers=workers, timeout=timeout, tag=cfg, xmx="12g")
    if res.violated:
        chk.model_violation(res, cfg + ":" + res.violated)
    else:
        vlib.tlc_ok(res, cfg)
    chk.add_tlc(res, cfg)
    conf = [l for l in res.replay if l.startswith('{"config"') or '"config":true' in l[:200]]
    scripts = [l for l in res.replay if l not in conf[:1]]
    if not conf:
        raise vlib.ToolError("no config line from " + cfg)
    cf = os.path.join(vlib.WORK, cfg + ".config.json")
    open(cf, "w").write(conf[0])
    fn = os.path.join(vlib.WORK, cfg + ".ndjson")
    vlib.write_lines(fn, scripts)
    out = vlib.run_harness(["c13", "replay", family, cf], stdin_path=fn)
    for o in out:
        if o["t"] == "mismatch":
            chk.mismatch({"case": o["case"], "detail": o["detail"], "config": cfg})
        elif o["t"] == "sample":
            chk.sample({"config": cfg, **o["v"]}, limit=3)
        elif o["t"] == "summary":
            chk.evaluations += o["evaluations"]
    chk.traces += len(scripts)


def run(chk):
    thorough = chk.tier == "thorough"
    _go(chk, "MC_C13_p17", "p17")
    _go(chk, "MC_C13_z", "z")
    _go(chk, "MC_C13_zp", "poplar")
    _go(chk, "MC_C13_z4", "z")
    _go(chk, "MC_C13_zp4", "poplar")
    if thorough:
        _go(chk, "MC_C13_z5", "z", timeout=3000)
    chk.exhaustive = True
    chk.explanation = (
        "Exhaustive within bounds: every script over 3 output shares with up to 3 live partial aggregates (any creation/accumulate/merge interleaving, "
        "<= 8 steps, at most one refused operation: wrong length, empty, too long, or -- Poplar1 -- wrong level kind)"
        + ", and over 4 shares with up to 2 partial aggregates" + (", and over 5 shares with up to 2 partial aggregates (<= 9 steps)" if thorough else "")
        + ". TLC checks every partial aggregate equals the sum of exactly the shares folded in; each script is replayed on AggregateShare<FieldV17> "
          "(wrap-around values), AggregateShare<Field128|Field64|FieldPrio2> created by the VDAFs' aggregate_init, and Poplar1FieldVec inner/leaf, comparing "
          "the accumulator's encoding with the model after every operation (unchanged after a refusal).")
    chk.assumptions = ["values on deployed fields are small integers and their negatives, so expected sums are exact in TLC for every field"]


def replay(chk, path):
    print(open(path).read()[:4000])
    run(chk)
