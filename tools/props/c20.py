"""C20 -- aggregation-parameter admissibility for all histories; constructor/decoder acceptance.

spec/AggParam.tla (the rule, well-formedness, wire format as a total decoder), spec/MC_C20.tla
(enumeration). Binding: spec->impl replay of every enumerated history / list / byte string."""
import os
import vlib


def _go(chk, cfg, workers=8, timeout=2400):
    res = vlib.run_tlc("MC_C20", cfg, workers=workers, timeout=timeout, tag=cfg, xmx="8g")
    if res.violated:
        chk.model_violation(res, cfg + ":" + res.violated)
    else:
        vlib.tlc_ok(res, cfg)
    chk.add_tlc(res, cfg)
    # the parameter list line must come first
    lines = sorted(res.replay, key=lambda l: 0 if l.startswith('{"t":"params"') or '"t":"params"' in l[:40] else 1)
    fn = os.path.join(vlib.WORK, cfg + ".ndjson")
    vlib.write_lines(fn, lines)
    out = vlib.run_harness(["c20", "replay"], stdin_path=fn)
    for o in out:
        if o["t"] == "mismatch":
            chk.mismatch({"case": o["case"], "detail": o["detail"], "config": cfg})
        elif o["t"] == "sample":
            chk.sample({"config": cfg, **o["v"]}, limit=4)
        elif o["t"] == "summary":
            chk.evaluations += o["evaluations"]
    chk.traces += len(res.replay)


def run(chk):
    thorough = chk.tier == "thorough"
    _go(chk, "MC_C20_b2h3")
    _go(chk, "MC_C20_b3h1")
    _go(chk, "MC_C20_ctor2")
    _go(chk, "MC_C20_ctor3")
    if thorough:
        _go(chk, "MC_C20_b3h2", workers=16, timeout=3000)
    chk.exhaustive = True
    chk.explanation = (
        "Exhaustive: bit length 2 -- all 18 parameters x all histories of length <= 3 (6 175 histories x 18 candidates); bit length 3 -- all 273 parameters x all "
        "histories of length <= %d; constructor -- every list of <= 3 prefixes of length 0..3 in every order (unsorted, duplicated, mixed length, empty); decoder -- "
        "every honest encoding for bit lengths <= 3 with every single bit flip of the prefix area, header byte substitutions, level/count at their maxima, all "
        "truncations and a trailing byte. Verdicts, decoded values, re-encodings and encoded_len compared. Prio3/Prio2 single-use rule for 0..3 previous uses. "
        "TLC also shows (ASSUME) that the three wrong variants named in the property differ from the rule inside the explored space." % (2 if thorough else 1))
    chk.assumptions = ["bit lengths above 3 are not enumerated (parameter count grows doubly exponentially)"]


def replay(chk, path):
    print(open(path).read()[:4000])
    run(chk)
