"""C17 -- helper shares are independent of the measurement; the leader share is masked."""
import vlib
from props import prio3_common as pc


def run(chk):
    thorough = chk.tier == "thorough"
    for p in (17, 193, 40961):
        scn, n = pc.scenarios(chk, p)
        pc.record_and_validate(chk, p, "pair", scn, n, "pair-p%d" % p)
    scn, n = pc.scenarios(chk, "big193")
    pc.record_and_validate(chk, 193, "pair", pc.thin(scn, 1, 4000), 16 if thorough else 8, "pair-big-p193")
    # several 256-element blocks (530 / 600 field elements); measurements that differ in the first, second and last block
    scn, n = pc.scenarios(chk, "huge193")
    pc.record_and_validate(chk, 193, "pair", pc.thin(scn, 1 if thorough else 2, 12), 12, "pair-huge-p193", nchunks=6)
    chk.exhaustive = False
    chk.explanation = (
        "For every pair of consecutive measurements of every circuit in the TLC-generated lattice (incl. inputs of 128-192 and of 530/600 field elements, i.e. several encoding blocks), the real Prio3 shards both with the same randomness and nonce; "
        "TLC validates both shardings byte-for-byte against the spec and checks the pair relation: every helper input share byte-identical, the leader's blind "
        "identical, only the leader's joint-randomness part of the public share may differ, and leader_meas(m1) - leader_meas(m2) = Encode(m1) - Encode(m2). "
        "The recorded XOF queries show that no helper-share derivation contains measurement-dependent bytes.")
    chk.assumptions = ["Poplar1 half of the property is checked under C03's sharding trace"]


def replay(chk, path):
    print(open(path).read()[:3000])
    run(chk)
