"""C12 -- ping-pong topology state machine under an adversarial network, with persistence.

spec/PingPong.tla: leader/helper processes over an abstract R-round, order-sensitive VDAF; the
network may deliver any Initialize/Continue/Finish assembled from payloads seen so far or garbage
(replay, duplication, re-typing, cross-round mixing, corruption, loss). Every maximal behaviour is
replayed through the real topology code over an instrumented VDAF (byte codecs, continuation
persisted/reloaded/re-evaluated at every step)."""
import os
import vlib


def _go(chk, cfg, rounds, timeout=2400, workers=8):
    res = vlib.run_tlc("PingPong", cfg, workers=workers, timeout=timeout, tag=cfg, xmx="8g")
    if res.violated:
        chk.model_violation(res, cfg + ":" + res.violated)
    else:
        vlib.tlc_ok(res, cfg)
    chk.add_tlc(res, cfg)
    fn = os.path.join(vlib.WORK, cfg + ".ndjson")
    vlib.write_lines(fn, res.replay)
    out = vlib.run_harness(["c12", "replay", str(rounds)], stdin_path=fn)
    for o in out:
        if o["t"] == "mismatch":
            chk.mismatch({"case": o["case"], "detail": o["detail"], "config": cfg})
        elif o["t"] == "sample":
            chk.sample({"config": cfg, **o["v"]}, limit=3)
        elif o["t"] == "summary":
            chk.evaluations += o["evaluations"]
    chk.traces += len(res.replay)
    if rounds in (1, 2):
        # the same behaviours over the shipped VDAFs: Prio3 (one round), Poplar1 (two rounds)
        out = vlib.run_harness(["c12", "real", str(rounds), str(chk.seed)], stdin_path=fn)
        for o in out:
            if o["t"] == "mismatch":
                chk.mismatch({"case": o["case"], "detail": o["detail"], "config": cfg})
            elif o["t"] == "summary":
                chk.evaluations += o["evaluations"]
                chk.parts[cfg + "-real-vdafs"] = {"replayed": o["evaluations"]}


def run(chk):
    thorough = chk.tier == "thorough"
    _go(chk, "PingPong_r1", 1)
    _go(chk, "PingPong_r2", 2)
    _go(chk, "PingPong_r3f1", 3)
    _go(chk, "PingPong_r3", 3, workers=16)
    if thorough:
        _go(chk, "PingPong_r4", 4, workers=16)
        _go(chk, "PingPong_r2f3", 2, workers=16)
    chk.exhaustive = True
    chk.explanation = (
        "Exhaustive within bounds: every behaviour of PingPong.tla for R=1 (<=2 adversarial deliveries), R=2 (<=2), R=3 (<=2)"
        + (", R=4 (<=1), R=2 (<=3)" if thorough else "")
        + " is model-checked (outputs correct, shares reach the combiner in aggregator order, release only on the honest transcript, message sequence) and "
          "replayed step by step through leader_initialized/helper_initialized/*_continued/evaluate with every Transition continuation encoded, decoded, "
          "compared and re-evaluated; continuation kind, error kind, next state, outbound message and released share are compared with the model. "
          "The R=1 behaviours are also replayed over the real Prio3 (Count, Histogram with joint randomness, a two-proof SumVec) and the R=2 behaviours over the real "
          "Poplar1 (inner and leaf level): abstract payloads are mapped to the bytes of an honest broadcast execution, every out-of-place delivery must be refused, "
          "every accepted one must produce exactly the broadcast's next state, outbound message and output share, and every continuation is persisted, reloaded "
          "(with the VDAF's own state decoder) and re-evaluated.")
    chk.assumptions = ["the instrumented VDAF (harness) implements the abstract VDAF of the spec: round- and order-sensitive verify_next, byte codecs",
                       "over the real VDAFs error kinds are compared for PeerMessageMismatch only (a real VDAF may refuse an out-of-place share in the combiner, "
                       "where the abstract one refuses in verify_next); a wrong share is refused by the real VDAFs except with negligible probability"]


def replay(chk, path):
    print(open(path).read()[:4000])
    run(chk)
