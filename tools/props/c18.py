"""C18 -- reports are bound to context, nonce, role and key (exact query tuples + mismatch lattice)."""
import vlib
from props import prio3_common as pc
from props import c11


def run(chk):
    thorough = chk.tier == "thorough"
    for p in (17, 193) + ((40961,) if thorough else ()):
        scn, n = pc.scenarios(chk, p)
        pc.record_and_validate(chk, p, "mismatch", scn, n if thorough else (60 if p == 17 else 15), "mismatch-p%d" % p)
    # (iii) the XOFs themselves (src/vdaf/xof.rs): what Prio3/Poplar1 put into a tag or binder must reach the stream --
    # multi-part tags and binders that differ in exactly one part give streams that never share their first 16 bytes
    res = vlib.run_tlc("MC_C11", "MC_C11_XofSep", workers=4, timeout=600, tag="c18xofsep")
    vlib.tlc_ok(res, "MC_C11_XofSep")
    chk.add_tlc(res, "xof-separation-scripts")
    c11.xof_scripts(chk, sorted(res.replay), "c18sep")
    chk.exhaustive = False
    chk.explanation = (
        "(i) structural: every XOF query the real Prio3 makes is recorded as (seed, dst, binder); the trace spec derives every value from the table by asking for "
        "exactly the tuple the draft prescribes (ctx in every tag; aggregator id, nonce and encoded share in each joint-randomness part; num_proofs and nonce in the "
        "query randomness; num_proofs and id in the proof share) -- a derivation that binds anything else finds no table entry and the trace is rejected at that "
        "event. (ii) behavioural: for every circuit/measurement scenario the mismatch lattice (ctx / nonce / verify key / ctx+nonce / key+nonce at one aggregator or "
        "at all; a neighbour's identifier and share; identifier out of range; another algorithm identifier at one aggregator or at all) is executed and TLC recomputes the exact verdict and outputs on the tiny field, "
        "including the documented exception (nonce substituted consistently without joint randomness yields the honest output shares). (iii) XOF level: on TurboSHAKE128, "
        "HMAC-SHA256-AES128 and fixed-key AES128, tags and binders of several parts that differ in exactly one (late or empty) part are validated by C11_Trace.tla: equal "
        "concatenations give one stream, different ones never share their first 16 bytes -- so a context string appended as a second tag part cannot be dropped inside the XOF.")
    chk.assumptions = ["Poplar1's binding is checked under C03/C04 (IDPF keys are not generic in the XOF)"]


def replay(chk, path):
    print(open(path).read()[:3000])
    run(chk)
