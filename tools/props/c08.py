"""C08 -- decoders are total: arbitrary bytes give a value or an error, never a crash, loop or runaway allocation."""
from props import codec_common as cc


def run(chk):
    thorough = chk.tier == "thorough"
    fn, n = cc.strings(chk, chk.tier)
    cc.replay(chk, fn)   # includes panic, allocation envelope and time budget on the structured strings (header fields at their extremes)
    lines = cc.fuzz(chk, fn, 300 if thorough else 30)
    cc.aggparam(chk)
    chk.exhaustive = False
    chk.explanation = (
        "Structured strings of C07 (every header field at its extremes: all-ones length prefixes and counts, unknown tags, truncations at every item boundary) plus "
        "%d seeded random mutations per accepted string (bit flips, boundary byte values, deletions, insertions, truncations, extensions, 0xffffffff splices, "
        "swaps). Each decode runs under catch_unwind with overflow checks on, a per-thread counting allocator and a clock; every event is judged by TLC against the "
        "total decoder Codec!Dec: same verdict, no panic, accepted strings canonical with exact advertised length, allocation <= 64*(|input| + size implied by the "
        "decoding parameter) + 16 KiB, time <= 200 ms." % (300 if thorough else 30))
    chk.assumptions = ["termination/allocation are observed on the explored inputs, not proved", "zero-sized item types in decode_*_items are outside the message types of the library (see DESIGN.md D7)"]


def replay(chk, path):
    print(open(path).read()[:3000])
    run(chk)
