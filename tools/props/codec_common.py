"""Shared driver for C07 / C08: TLC enumerates strings + verdicts (MC_C07 over Codec.tla); the harness
replays them on the real decoders; seeded random mutations are recorded and judged by TLC (Codec_Trace)."""
import json
import os
import vlib


def strings(chk, tier):
    cfg = "MC_C07_thorough"   # the full instance set is cheap enough for every run
    res = vlib.run_tlc("MC_C07", cfg, workers=16, timeout=2400, tag=cfg, xmx="8g")
    if res.violated:
        chk.model_violation(res, cfg + ":" + res.violated)
    else:
        vlib.tlc_ok(res, cfg)
    chk.add_tlc(res, "string-enumeration")
    fn = os.path.join(vlib.WORK, cfg + ".ndjson")
    vlib.write_lines(fn, sorted(res.replay))
    return fn, len(res.replay)


def replay(chk, fn, only=None):
    out = vlib.run_harness(["c07", "replay"], stdin_path=fn)
    for o in out:
        if o["t"] == "mismatch":
            kind = o["case"].rsplit("/", 1)[-1]
            if only is None or kind in only:
                chk.mismatch({"case": o["case"], "detail": o["detail"]})
        elif o["t"] == "sample":
            chk.sample(o["v"], limit=4)
        elif o["t"] == "summary":
            chk.evaluations += o["evaluations"]


def fuzz(chk, fn, per):
    trace = os.path.join(vlib.WORK, "c08_fuzz.ndjson")
    out = vlib.run_harness(["c07", "fuzz", trace, str(chk.seed), str(per)], stdin_path=fn)
    n = out[-1]["evaluations"]
    results, lines = vlib.validate_trace_parallel("Codec_Trace", "Codec_Trace", trace, nchunks=12, boundary='"d":', tag="c08")
    for ok, un, res in results:
        chk.add_tlc(res, None)
        if ok:
            chk.traces += 1
        else:
            e = json.loads(lines[un - 1]) if un else {}
            d = e.get("d", {})
            what = "panic" if e.get("panic") else ("verdict_or_canonical" if e.get("alloc", 0) < 10 ** 6 else "allocation")
            chk.mismatch({"case": "codec-fuzz/%s/%s" % (d.get("ty"), what), "event": e, "line": un})
    chk.evaluations += n
    return lines


def aggparam(chk):
    """The Poplar1 aggregation-parameter constructor/decoder enumeration of AggParam.tla (shared with C20)."""
    for cfg in ("MC_C20_ctor2", "MC_C20_ctor3"):
        res = vlib.run_tlc("MC_C20", cfg, workers=8, timeout=1200, tag="c07" + cfg)
        if res.violated:
            chk.model_violation(res, cfg + ":" + res.violated)
        else:
            vlib.tlc_ok(res, cfg)
        chk.add_tlc(res, "aggparam-" + cfg)
        fn = os.path.join(vlib.WORK, "c07_" + cfg + ".ndjson")
        vlib.write_lines(fn, res.replay)
        for o in vlib.run_harness(["c20", "replay"], stdin_path=fn):
            if o["t"] == "mismatch":
                chk.mismatch({"case": o["case"], "detail": o["detail"], "config": cfg})
            elif o["t"] == "summary":
                chk.evaluations += o["evaluations"]
        chk.traces += len(res.replay)
