"""C04 -- Poplar1 robustness: accepted reports contribute a zero or one-hot 0/1 vector."""
from props import poplar1_common as pc


def run(chk):
    pc.model(chk, ["MC_Poplar1_k1", "MC_Poplar1_k2"])
    pc.record_and_validate(chk, "tamper", nchunks=14)
    pc.record_and_validate(chk, "attack", nchunks=8)
    chk.exhaustive = False
    chk.explanation = (
        "Model: over GF(17), k = 1, 2 candidates, TLC enumerates data vectors y and authenticator vectors z over {0,1,2,-1} x {0,3,6,-3}, offsets of A and B, and ALL "
        "verification randomness: the report is accepted for every r exactly when y is zero or one-hot 0/1, z = (auth+dA)*y and dB = -dA*a; every other report is "
        "accepted for at most 2*P^(k-1) of the P^k randomness vectors; the closed form of the verifier's sum is checked; state/message variants match exactly as "
        "specified. Binding: after honest sharding one bit of every (strided) byte of the public share, of both input shares, of each verifier share of both rounds and of "
        "the round-one message is flipped for trees of 2/4/9 bits at inner and leaf levels; every call is validated (decode refusals against Codec.tla, sketch arithmetic "
        "and the zero test through BigNat witnesses) and WHENEVER both aggregators finish, TLC checks that their output shares sum to all zeros or a single one. "
        "Message substitution: the round-one message replaced by the empty round-two message, by a truncated message, and a round-one message delivered in round two. "
        "Variants: every (verifier state kind x round) x (sketch inner / sketch leaf / done) pair is put through verify_next and every pair of verifier-share variants "
        "through verifier_shares_to_message; TLC judges each with Poplar1Rounds!VerifyNextOK / CombineOK (shared with the model). "
        "Constructed malicious clients: through the public IDPF API the harness programs (y, auth*y + dz) on the input's path at an inner or the leaf level and shifts the "
        "leader's B share by dB, for y in {0,1,2,3,-1}, dz, dB small; TLC decides with Poplar1Rounds!DevWellFormed (tied to Poplar1!WellFormed by MC invariant DevAgrees) "
        "whether the report must be accepted under every key contributing exactly y at the on-path candidate, or refused under at least one of two independent keys.")
    chk.assumptions = ["malicious IDPF key material beyond a re-programmed point function is explored through bit flips of honest messages, not through all correction-word tuples",
                       "constructed clients keep the A share honest (deviations of A make the verdict depend on the secret offset a); those are decided on the model only",
                       "a malformed report is accepted with probability <= 2/p per key (model: accept set <= 2*P^(k-1)); two keys over the 64-bit field bound a false alarm by 2^-126"]


def replay(chk, path):
    print(open(path).read()[:3000])
    run(chk)
