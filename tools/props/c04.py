"""C04 -- Poplar1 robustness: accepted reports contribute a zero or one-hot 0/1 vector."""
from props import poplar1_common as pc


def run(chk):
    pc.model(chk, ["MC_Poplar1_k1", "MC_Poplar1_k2"])
    pc.record_and_validate(chk, "tamper", nchunks=14)
    chk.exhaustive = False
    chk.explanation = (
        "Model: over GF(17), k = 1, 2 candidates, TLC enumerates data vectors y and authenticator vectors z over {0,1,2,-1} x {0,3,6,-3}, offsets of A and B, and ALL "
        "verification randomness: the report is accepted for every r exactly when y is zero or one-hot 0/1, z = (auth+dA)*y and dB = -dA*a; every other report is "
        "accepted for at most 2*P^(k-1) of the P^k randomness vectors; the closed form of the verifier's sum is checked; state/message variants match exactly as "
        "specified. Binding: after honest sharding one bit of every (strided) byte of the public share, of both input shares, of each verifier share of both rounds and of "
        "the round-one message is flipped for trees of 2/4/9 bits at inner and leaf levels; every call is validated (decode refusals against Codec.tla, sketch arithmetic "
        "and the zero test through BigNat witnesses) and WHENEVER both aggregators finish, TLC checks that their output shares sum to all zeros or a single one. "
        "Variant mismatches (inner/leaf state vs message, round-two state vs round-one message, shares of different kinds, 1 or 3 verifier shares) must be refused.")
    chk.assumptions = ["malicious IDPF key material is explored through bit flips of honest messages, not through all correction-word tuples",
                       "client strategies with re-programmed values are decided on the model only"]


def replay(chk, path):
    print(open(path).read()[:3000])
    run(chk)
