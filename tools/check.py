#!/usr/bin/env python3
"""check.py <Cxx> [--tier quick|thorough] [--replay file]

Runs the model-based check of one property against /repo's current working tree:
  1. cargo build of the conformance harness (hooks on, dev-profile semantics);
  2. TLC on the property's spec/config (decides the property on the model, emits behaviours);
  3. spec->impl replay and/or impl->spec trace validation;
  4. evidence/<id>.json; exit 0 / 1 (+ VIOLATION line) / 2 (tool failure).
"""
import argparse
import importlib
import os
import sys
import traceback

sys.path.insert(0, os.path.dirname(os.path.abspath(__file__)))
import vlib  # noqa: E402


def main():
    ap = argparse.ArgumentParser()
    ap.add_argument("pid")
    ap.add_argument("--tier", default=os.environ.get("VERIF_TIER", "quick"), choices=["quick", "thorough"])
    ap.add_argument("--replay", default=None)
    ap.add_argument("--no-build", action="store_true")
    a = ap.parse_args()
    seed = int(os.environ.get("VERIF_SEED", "20260923"))
    pid = a.pid.upper()
    try:
        mod = importlib.import_module("props." + pid.lower())
    except ImportError as e:
        print("no check for %s: %s" % (pid, e), file=sys.stderr)
        return 2
    chk = vlib.Check(pid, a.tier, seed)
    try:
        if not a.no_build:
            vlib.build_harness()
        if a.replay:
            mod.replay(chk, a.replay)
        else:
            mod.run(chk)
        return chk.finish()
    except vlib.ToolError as e:
        print("TOOL-ERROR property=%s %s" % (pid, e), file=sys.stderr)
        return 2
    except Exception:
        traceback.print_exc()
        return 2


if __name__ == "__main__":
    sys.exit(main())
