#!/usr/bin/env python3
"""Computes FieldParameters constants for the small verification-only primes of hook H1.
Prints the Rust items that go into /repo/src/fp.rs (guarded by cfg(prio_verif)) and the matching
TLA+ constant table (spec/FpParams.tla).  Pure integer arithmetic; nothing here is an oracle for a
check: the TLA+ module FpOps re-derives every constant from its definition and TLC checks them."""
import sys

def is_prime(n):
    if n < 2: return False
    i = 2
    while i * i <= n:
        if n % i == 0: return False
        i += 1
    return True

def params(p, W, split):
    assert is_prime(p) and p < 2 ** W
    # The split-word REDC of src/fp/ops.rs drops the carry out of the top half-word in its first
    # reduction step; it is correct iff z + p*w1 < 2^(2W), which holds for all operands when
    # p * (p + 2^(W/2)) < 2^(2W) (true for FP128; found by TLC on spec/FpOps.tla, see DESIGN.md).
    assert not split or p * (p + 2 ** (W // 2)) < 2 ** (2 * W), "split-word precondition"
    R = 2 ** W
    base = 2 ** (W // 2) if split else R
    mu = (-pow(p, -1, base)) % base
    r2 = (R * R) % p
    # 2-adicity
    k, m = 0, p - 1
    while m % 2 == 0:
        k, m = k + 1, m // 2
    num_roots = k
    # generator of the 2^k subgroup: smallest g with g^m of order exactly 2^k
    g = None
    for c in range(2, p):
        h = pow(c, m, p)
        if pow(h, 2 ** (k - 1), p) != 1:
            g = h
            break
    mont = lambda x: (x * R) % p
    roots = []
    for l in range(0, 21):
        if l <= num_roots:
            roots.append(mont(pow(g, 2 ** (num_roots - l), p)))
        else:
            roots.append(0)
    half = mont(pow(2, -1, p))
    bit_mask = 2 ** p.bit_length() - 1
    return dict(p=p, W=W, split=split, mu=mu, r2=r2, g=mont(g), g_nat=g, num_roots=num_roots,
                bit_mask=bit_mask, roots=roots, half=half)

SETS = [
    # name, prime, W, split
    ("FP17", 17, 8, False),
    ("FP193", 193, 8, False),
    ("FP251", 251, 8, False),
    ("FP241", 241, 8, False),
    ("FP12289", 12289, 16, False),
    ("FP65521", 65521, 16, False),
    ("FP61441", 61441, 16, False),
    ("FP40961", 40961, 16, True),
    ("FP61441S", 61441, 16, True),
    ("FP12289S", 12289, 16, True),
]

def rust():
    out = []
    for name, p, W, split in SETS:
        d = params(p, W, split)
        w = "u%d" % W
        if split:
            mac = "impl_field_ops_split_word!(%s, %s, u%d);" % (name, w, W // 2)
        else:
            mac = "impl_field_ops_single_word!(%s, %s, u%d);" % (name, w, W * 2)
        out.append(f"""/// Verification-only parameter set for GF({p}) ({W}-bit word, {'split' if split else 'single'}-word multiplication).
#[cfg(prio_verif)]
pub(crate) struct {name};
#[cfg(prio_verif)]
{mac}
#[cfg(prio_verif)]
impl FieldParameters<{w}> for {name} {{
    const PRIME: {w} = {d['p']};
    const MU: {w} = {d['mu']};
    const R2: {w} = {d['r2']};
    const G: {w} = {d['g']};
    const NUM_ROOTS: usize = {d['num_roots']};
    const BIT_MASK: {w} = {d['bit_mask']};
    const ROOTS: [{w}; MAX_ROOTS + 1] = {d['roots']};
    const HALF: {w} = {d['half']};
    #[cfg(test)]
    const LOG2_BASE: usize = {W // 2 if split else W};
    #[cfg(test)]
    const LOG2_RADIX: usize = {W};
}}
""")
    return "\n".join(out)

if __name__ == "__main__":
    if sys.argv[1:] == ["rust"]:
        print(rust())
    else:
        for name, p, W, split in SETS:
            print(name, params(p, W, split))
