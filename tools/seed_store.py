#!/usr/bin/env python3
"""seed_store.py <src dir> <seed id> <property> <change> <needs> <detected_by> <ran>: files a confirmed seeded change under /verif/seeded."""
import json, os, shutil, sys
src, sid, prop, change, needs, det, ran = sys.argv[1:8]
dst = os.path.join(os.path.dirname(os.path.dirname(os.path.abspath(__file__))), "seeded", sid)
os.makedirs(dst, exist_ok=True)
for f in ("patch.diff", "demo.rs", "notes.md"):
    if os.path.exists(os.path.join(src, f)):
        shutil.copy(os.path.join(src, f), os.path.join(dst, f))
meta = {"seed": sid, "property": prop, "change": change, "needs_to_manifest": needs,
        "origin": "independent sub-agent given only the property text and a scratch worktree",
        "confirmed": {"how": "tools/seed_confirm.sh in a scratch worktree: existing suite 181/181 with the patch; demo fails with the patch and passes without"},
        "detected_by": det, "ran": ran}
json.dump(meta, open(os.path.join(dst, "meta.json"), "w"), indent=1)
print("stored", dst)
