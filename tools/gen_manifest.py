#!/usr/bin/env python3
"""Writes MANIFEST.json from the table below (single source of truth for the check registry)."""
import json
import os
import subprocess

VERIF = os.path.dirname(os.path.dirname(os.path.abspath(__file__)))

# pid -> (design_ref, technique, level text, level note)
CHECKS = {
    "C09": ("DESIGN.md#c09--field-elements-are-integers-modulo-the-prime",
            "TLA+ spec of word-level field arithmetic (FpOps.tla), TLC: algorithm = meaning for all operand pairs at 8-bit words; "
            "spec->impl replay of TLC tables through hook H1; impl->spec witness-trace validation (BigNat.tla) on deployed fields",
            "Exhaustive model checking of the generic add/sub/REDC algorithms at 8-bit word size (every operand pair, every odd prime below 2^8), "
            "exhaustive replay of the same generic Rust code instantiated at 8-bit words, lattice+random replay at 16-bit words (single- and split-word), "
            "and TLC-judged integer witnesses (x*y = q*p + z, z < p) for lattice/random operands of FieldPrio2/Field64/Field128/Field255 incl. "
            "conversions, canonical decoding, hashing/equality consistency, roots of unity.",
            "TLC's evaluator; the 8/16-bit instantiations share the generic source of FP32/FP64/FP128 but are different monomorphizations; "
            "deployed primes are covered by lattice + sampling, not exhaustively."),
    "C05": ("DESIGN.md#c05--flp-provequerydecide",
            "TLA+ spec of the FLP and all shipped validity circuits (GF.tla, Flp.tla) from the draft's definitions; TLC checks completeness/linearity/lengths "
            "on every explored state; every TLC behaviour replayed through the real Flp/Type API on tiny-field instantiations (hook H1)",
            "Model checking of completeness, share-linearity, exact lengths and root-of-unity refusal for all shipped circuits (+ a user-defined degree-3 circuit) "
            "over GF(17)/GF(193)/GF(12289)/GF(40961); every behaviour (>50k in quick) replayed on the same generic Rust code instantiated over those fields with "
            "element-by-element comparison of proofs, verifier shares, circuit outputs, truncations, encodings and decisions; exhaustive randomness for "
            "Count/Sum(1)/HigherDegree over GF(17) in the thorough tier. Soundness counting is checked on the model under C02.",
            "Tiny-field instantiations share the generic source with Field64/Field128 but are different monomorphizations; randomness from pattern families "
            "outside the exhaustive sub-space; HigherDegree is re-declared in the harness from public API because the in-tree one is pub(crate) and Field64-only."),
    "C12": ("DESIGN.md#c12--ping-pong-topology",
            "TLA+ spec of the ping-pong topology with a Dolev-Yao style network and persistence (PingPong.tla); TLC explores every delivery sequence "
            "within a fault budget; every maximal behaviour replayed through the real topology API over an instrumented order-sensitive VDAF",
            "Exhaustive (bounded) model checking of the leader/helper state machines for R=1..4 rounds against replayed, duplicated, re-typed, cross-round and "
            "undecodable messages, with all maximal behaviours (>15k quick, >150k thorough) replayed on the real code: continuation kind, error kind, state, "
            "outbound message, combiner order and released share compared after every action; continuations encoded/decoded/re-evaluated at every step, every outbound "
            "message through its wire encoding; the R=1 / R=2 behaviours also over real Prio3 (incl. two proofs and 67 KiB verifier shares) and real Poplar1.",
            "Bounds: rounds <= 4, adversarial deliveries <= 1..3, behaviour length <= 8; R >= 3 only over the harness's instrumented VDAF."),
    "C20": ("DESIGN.md#c20--aggregation-parameter-admissibility",
            "TLA+ spec of the admissibility rule, well-formedness and wire format (AggParam.tla); TLC enumerates all parameters/histories for small bit lengths "
            "and all constructor/decoder inputs; verdicts replayed against Poplar1/Prio3/Prio2",
            "Exhaustive enumeration for bit lengths 2 and 3 (every non-empty prefix set at every level, every history up to length 3 resp. 1-2), every prefix "
            "list of <= 3 prefixes in every order for the constructor, and mutated encodings for the decoder, each with the verdict computed by TLC from the "
            "declarative rule; the implementation must agree on every single one.",
            "Only bit lengths <= 3 are enumerated; the 2^16 length limit is covered by C16's lattice."),
    "C13": ("DESIGN.md#c13--aggregation-is-ordergrouping-independent",
            "TLA+ spec of partial aggregation (Aggregation.tla): any partition into partial aggregates, accumulate order and merge tree, plus refused "
            "incompatible shares; TLC checks partial-sum invariants on every state; every script replayed on the real aggregate-share types",
            "Exhaustive (bounded) exploration of aggregation schedules for 3-5 output shares with up to 3 live partial aggregates and one refused operation; "
            "invariants: each partial aggregate is exactly the sum of the shares folded into it, no double counting, final = single pass. All >600k scripts "
            "replayed on AggregateShare over FieldV17/Field128/Field64/FieldPrio2 (created through the VDAFs' aggregate_init) and Poplar1FieldVec inner/leaf.",
            "Bounds: <= 5 shares, vectors of length 2-3, <= 9 operations; symmetry breaking on creation of empty aggregates (commutes with all other operations)."),
    "C01": ("DESIGN.md#c01--prio3-end-to-end-honest-reports-verify-and-aggregate-exactly",
            "TLA+ spec of Prio3 as functions over an XOF oracle table (Prio3.tla over Flp.tla); impl->spec trace validation of real Prio3 runs over tiny fields "
            "with a recording XOF, TLC recomputing every byte and verdict; scenarios generated by TLC",
            "Every byte of every message and every verdict of honest Prio3 executions (all shipped circuits, 2-5 aggregators, 1-3 proofs, three tiny fields incl. "
            "the split-word one, random ctx/nonce/key/randomness, all messages through their wire encoding) is recomputed by TLC from the recorded XOF table; "
            "honest/batch events assert output shares sum to the truncated encoding and the unsharded result is the plain aggregate mod P. FLP completeness for all "
            "randomness is model-checked under C05. The shipped alias constructors are bound on their deployed fields by Aliases_Trace.tla: algorithm id, every encoded "
            "length (hence circuit, field, proof count as denoted by the arguments), acceptance, and result = plain aggregate mod p for bounds up to 2^100 and 254 aggregators.",
            "Field-level recomputation on tiny-field instantiations of the same generic code; XOF bytes are an oracle; deployed aliases at length/verdict/result level."),
    "C02": ("DESIGN.md#c02--prio3-robustness",
            "Same Prio3 trace spec; adversarial scenario families (invalid inputs with honest proofs via a RawInput wrapper over the public Type trait; single-bit "
            "tampering of every message byte position; dropped/duplicated verifier shares); exact verdicts recomputed by TLC on tiny fields",
            "On a tiny field the model's exact accept set is the oracle: for each invalid input vector and each tampered byte position the implementation's "
            "accept/reject at every stage and all outputs must equal the values TLC recomputes from the recorded XOF table.",
            "Non-honest proofs only as single-bit deviations; negligible-probability clause is replaced by exact accept sets on tiny fields."),
    "C17": ("DESIGN.md#c17--helper-shares-independent-of-the-measurement-leader-share-masked",
            "Prio3 trace spec + pair events: two shardings with identical randomness/nonce and different measurements, validated byte-for-byte and related by TLC",
            "For all consecutive measurement pairs of the TLC lattice: helper shares identical, leader blind identical, only the leader joint-rand part differs, "
            "leader measurement share difference equals the encoding difference (exact in the tiny field).",
            "Poplar1 clause under C03; pairs are consecutive lattice elements, not all pairs."),
    "C18": ("DESIGN.md#c18--reports-are-bound-to-context-nonce-role-and-key",
            "Prio3 trace spec with exact XOF query tuples (structural binding) + mismatch lattice executed on real code with exact verdicts recomputed by TLC",
            "Structural: every derivation must query exactly (seed, version|class|alg id|usage|ctx, binder) as the spec prescribes or the trace is rejected (contexts of up to "
            "299 bytes). Behavioural: ctx/nonce/key/id/algorithm-id mismatches at one or all aggregators with TLC-computed exact verdicts incl. the documented nonce "
            "exception. XOF level: distinct (seed, tag, binder) never share a stream prefix on any XOF family.",
            "Tiny-field instantiations; Poplar1 binding under C03/C04."),
    "C10": ("DESIGN.md#c10--ntt-and-lagrange-routines-equal-their-definitions",
            "TLA+ definitions of the transforms and Lagrange routines by direct evaluation/interpolation (Ntt.tla); TLC computes full matrices on the unit "
            "basis; replay through hook H2 on tiny fields; size/capacity verdict tables on tiny and deployed fields",
            "Linearity makes basis comparison complete per size: for each power-of-two size up to 16 (GF(17)), 64 (GF(193)) resp. 128 every (or 8) basis vectors of "
            "every routine are compared element by element with values TLC computes from the definitions; error classes at the size/capacity boundaries are "
            "compared on all fields, incl. doubling / Lagrange multiplication at 2^17..2^20 evaluations on the deployed fields.",
            "Tiny-field monomorphizations of the generic routines; sizes above 128 only at error boundaries and constant polynomials."),
    "C11": ("DESIGN.md#c11--seed-streams-and-field-sampling",
            "TLA+ refinement check of the Prng look-ahead buffer machine against the abstract rejection sampler (Prng.tla, TLC exhaustive); TLC-generated "
            "sampling scripts replayed on the real Prng/IntoFieldVec (hook H3); XOF chunking scripts executed on the real XOFs and trace-validated as one function",
            "Exhaustive refinement check of the buffer/leftover/field-switch logic at small sizes; scripted rejections at every buffer position and across refills "
            "on all seven fields with expected elements from TLC; every tag/binder split (incl. zero parts), boundary-straddling and word-sized (next_u32/next_u64) read sequence "
            "on all XOF families validated by TLC as views of one function that separates distinct (seed, tag, binder).",
            "XOF primitives are oracles; buffer size 32 in the implementation vs 3 in the exhaustive model (the scripts cover the real size)."),
    "C07": ("DESIGN.md#c07--canonical-round-tripping-length-exact-encodings",
            "TLA+ total decoders for every wire format (Codec.tla grammar interpreter); TLC enumerates honest-shaped and deviating strings with verdicts; replay on "
            "the real decoders comparing verdict, canonical re-encoding and encoded_len",
            "Every message type x decoding parameter instance is exercised with model-judged strings covering each non-canonical form named in the property; the "
            "real decoder must agree with the model's verdict on every string, and every accepted string must re-encode to itself with the advertised length; each decoder is "
            "also run in its cursor form inside a larger buffer (consumed length = Codec!DecLen) and each encoder into a non-empty buffer.",
            "Instances and deviations are enumerated, not all byte strings; field canonicity judged through limb arithmetic (BigNat.tla)."),
    "C08": ("DESIGN.md#c08--total-decoders",
            "Same total-decoder spec; structured extremes + seeded random mutations run on the real decoders under catch_unwind / counting allocator / clock, and "
            "trace-validated by TLC against Codec!Dec (verdict, canonicity, allocation envelope)",
            "Each of >4k structured strings and >4k (quick) / >40k (thorough) random mutations is decoded by the real code with panics, arithmetic overflow "
            "(dev profile), allocation volume and time observed, and judged by TLC; whole-message and cursor-form decoding of every string.",
            "Totality is observed on the explored inputs; the allocation envelope constant (64x + 16 KiB) is part of the spec."),
    "C16": ("DESIGN.md#c16--fallible-public-operations-reject-bad-arguments-with-errors",
            "TLA+ argument-domain predicates per constructor/operation over exact big integers (ApiDomain.tla); TLC judges every case of the boundary lattice; "
            "the harness executes each case on the real API in a journaling child process (catch_unwind, overflow checks, allocation cap) and must observe the "
            "judged class, incl. usability of accepted instances",
            "About 1 900 boundary cases over all Result-returning constructors and protocol operations of Prio3, Prio2, Poplar1, the FLP types and DP; each must "
            "behave as ApiDomain.tla says: Err cases return an error (never a panic, overflow, abort or unusable instance), Ok cases yield an instance that works.",
            "Lattice, not all of usize; allocation-heavy follow-ups only within the memory budget."),
    "C19": ("DESIGN.md#c19--prio2",
            "TLA+ spec of the Prio v2 proof (Prio2.tla); TLC computes exact accept sets over all query points on GF(17)/GF(193); trace validation of the field-"
            "generic client/server code over tiny fields (hook H4) and of the real Prio2 (outcomes under the k-key rule, sums, codec, query-point loop witnesses)",
            "Exact accept-set model checking of completeness/soundness/tamper-evidence for small lengths; every proof element and verification message of the "
            "generic code recomputed by TLC on three tiny fields; real Prio2 bound at outcome level for lengths up to 257 (quick) / 65535 (thorough).",
            "Tiny-field monomorphizations; k-key rule on the 32-bit field; f0/g0 taken from the observed proof."),
    "C06": ("DESIGN.md#c06--idpf-reconstruction-and-cache-transparency",
            "TLA+ spec of the IDPF over an abstract PRG (Idpf.tla); TLC exhaustively checks reconstruction and cache transparency for every history and every "
            "forgetful cache; trace validation of TLC-generated evaluation histories on the real Idpf with recording cache wrappers",
            "Exhaustive model checking (2.5M-9.5M states) of reconstruction and cache transparency; every short evaluation history replayed on the real code for "
            "7 cache kinds and 3 value types with cache hits, results and the reconstruction identity judged by TLC; deep trees by seeded histories.",
            "PRG opaque; histories enumerated for depth <= 3 (4 in thorough), sampled for deeper trees."),
    "C03": ("DESIGN.md#c03--poplar1-end-to-end",
            "TLA+ share-level model of the Poplar1 sketch (Poplar1.tla) checked for all verification randomness; trace validation of real Poplar1 runs with a "
            "recording XOF: exact XOF queries, message structure, sketch arithmetic through BigNat witnesses, exact counts, heavy hitters",
            "Completeness of the two-round sketch for every randomness on the model; real executions for bit lengths 1..8 (all levels, admissible sequences, heavy "
            "hitters) and 64/300/21850(/65536) bits at boundary levels validated event by event.",
            "IDPF shares opaque (C06); deployed fields through witnesses."),
    "C04": ("DESIGN.md#c04--poplar1-robustness",
            "Poplar1.tla model: exact characterization of the reports accepted for every randomness and accept-set bound for all others (TLC over GF(17)); trace "
            "validation of tampered real runs: whenever both aggregators finish, the output shares sum to a zero or one-hot vector",
            "Exact accept-set analysis on the model; on the real code every explored single-bit alteration or substitution of every message either is refused or leaves a "
            "zero/one-hot contribution, every state/message variant pair behaves as the shared round predicate says, and constructed malicious clients (re-programmed IDPF "
            "values, shifted correlated-randomness shares) are accepted exactly when the model says they are well-formed, all judged by TLC from the recorded shares.",
            "Constructed clients keep the A share honest; other key material only through bit flips."),
    "C14": ("DESIGN.md#c14--multithreaded-gadget-evaluation-equals-serial",
            "TLA+ model of rayon's fold/reduce contract (ParSum.tla): every schedule checked by TLC, with negative controls; observed schedules of the real "
            "scheduler (hook H5) validated against the contract together with byte equality of outputs, at gadget level and end to end",
            "All schedules of the contract for up to 6 chunks; hundreds of real schedules across pool sizes 1-16 and chunk counts from 1 to 1000 validated; serial "
            "and multithreaded Prio3 variants compared byte for byte under identical randomness.",
            "Real scheduler outcomes are sampled; rayon is assumed to implement its documented contract for schedules not observed."),
    "C15": ("DESIGN.md#c15--exact-discrete-laplace--gaussian-samplers-scaled-right",
            "TLA+ transcription of the CKS20 samplers as tape transducers (DpSamplers.tla); TLC enumerates every random tape up to a depth bound; each complete "
            "tape replayed on the real sampler layers (hook H6); exact path masses checked against the defining laws; noise addition replayed with TLC-computed sums",
            "Every tape of up to 8 (quick) / 10 (thorough) draws for 34 layer/parameter pairs: functional equivalence of the real samplers with the model on all of "
            "them (outcome and consumed randomness), and the law of each layer bracketed exactly by explored mass and residual; noise addition with TLC-computed sums, "
            "BigNat-verified scales for bounds up to 2^127+1, and noise of magnitude >= p over GF(17).",
            "Exactness up to the reported residual mass; small rational parameters."),
}

NOT_YET = {}


def main():
    props = [json.loads(l) for l in open(os.path.join(VERIF, "properties.jsonl"))]
    hooks = subprocess.run(["git", "-C", "/repo", "log", "--format=%H %s"], capture_output=True, text=True).stdout.splitlines()
    hook_commits = [l.split()[0] for l in hooks if " verif hook" in l]
    checks = []
    na = []
    for p in props:
        pid = p["id"]
        if pid in CHECKS:
            ref, tech, text, note = CHECKS[pid]
            checks.append({
                "property_id": pid,
                "quick_cmd": "python3 tools/check.py %s --tier quick" % pid,
                "thorough_cmd": "python3 tools/check.py %s --tier thorough" % pid,
                "evidence_file": "/verif/evidence/%s.json" % pid,
                "replay_cmd_template": "python3 tools/check.py %s --replay {path}" % pid,
                "engine": "tlc+prio-conform",
                "level_claimed": {"category": "model_checking", "text": text, "design_ref": ref},
                "level_note": note,
                "technique": tech,
            })
        else:
            na.append({"property_id": pid, "reason": NOT_YET.get(pid, "check not built yet in this session (planned per DESIGN.md section 8; TLA+ spec + conformance binding pending)")})
    m = {
        "version": 1,
        "setup_cmd": "cd /verif/harness && cargo build --offline",
        "hooks": {
            "guard": "--cfg prio_verif",
            "enable": "RUSTFLAGS='--cfg prio_verif' via /verif/harness/.cargo/config.toml (harness has a path dependency on /repo)",
            "baseline_off_cmd": "cd /repo && cargo nextest run --workspace --no-fail-fast --tool-config-file pb:/w/lib/nextest.toml --profile pb --test-threads 8 --offline",
            "source_commits": hook_commits,
            "add_only": True,
        },
        "engines": [
            {"name": "tlc+prio-conform", "path": "/verif/tools/check.py",
             "serves_properties": [c["property_id"] for c in checks],
             "kind_free_text": "TLA+ specifications in /verif/spec checked by TLC 1.8 (model checking, behaviour generation, trace validation); "
                               "Rust conformance harness /verif/harness (replay of TLC behaviours on the real API, recording of traces for TLC)"},
        ],
        "checks": checks,
        "not_applicable": na,
        "notes": "All checks: exit 0 held / 1 + VIOLATION line / 2 tool failure. VERIF_SEED seeds operand choice. Known findings: /verif/known_findings.json.",
    }
    with open(os.path.join(VERIF, "MANIFEST.json"), "w") as f:
        json.dump(m, f, indent=1)
        f.write("\n")


if __name__ == "__main__":
    main()
