#!/bin/bash
# seed_check.sh <patch> <PID...>: applies a seeded change to /repo, runs the quick checks, reverts.
P=$1; shift
cd /repo && git apply "$P" || { echo APPLY-FAILED; exit 2; }
for pid in "$@"; do
  cd /verif && python3 tools/check.py $pid --tier quick 2>&1 | grep -E "^(VIOLATION|OK|KNOWN|TOOL|\[C)" | cut -c1-400
  echo "exit=$? ($pid)"
done
cd /repo && git checkout -q -- . && git status --short | head -3
rm -f /verif/evidence/replay/*.json
# evidence written while the seeded change was applied must not survive
cd /verif && git checkout -q -- evidence
