#!/usr/bin/env python3
"""dev helper: trytrace.py MODULE CFG trace.ndjson"""
import sys
sys.path.insert(0, '/verif/tools')
import vlib
mod, cfg, path = sys.argv[1:4]
try:
    ok, un, res = vlib.validate_trace(mod, cfg, path, timeout=int(sys.argv[4]) if len(sys.argv) > 4 else 300)
    print("accepted" if ok else "REJECTED at %s" % un, "states", res.distinct, "wall", round(res.wall, 1))
    if not ok and un:
        lines = open(path).read().splitlines()
        print(lines[un - 1][:1500])
except Exception as e:
    print("ERR", e)
