#!/bin/bash
# seed_check2.sh <patch> <PID...>: like seed_check.sh but leaves /repo alone -- the patch is applied to a scratch worktree
# (/tmp/sc_repo) and the checks run against a copy of the harness (/tmp/sc_harness) that depends on that worktree.
P=$1; shift
[ -d /tmp/sc_repo ] || git -C /repo worktree add --detach /tmp/sc_repo >/dev/null 2>&1
cd /tmp/sc_repo && git checkout -q --detach $(git -C /repo rev-parse HEAD) && git checkout -q -- . && git apply "$P" || { echo APPLY-FAILED; exit 2; }
mkdir -p /tmp/sc_harness
rsync -a --delete --exclude target /verif/harness/ /tmp/sc_harness/
sed -i 's#path = "/repo"#path = "/tmp/sc_repo"#' /tmp/sc_harness/Cargo.toml
for pid in "$@"; do
  cd /verif && VERIF_DEV_HARNESS=/tmp/sc_harness python3 tools/check.py $pid --tier quick 2>&1 | grep -E "^(VIOLATION|OK|KNOWN|TOOL|\[C)" | cut -c1-400
  echo "exit=$? ($pid)"
done
cd /tmp/sc_repo && git checkout -q -- .
rm -f /verif/evidence/replay/*.json
cd /verif && git checkout -q -- evidence
