//! C09: field arithmetic. (a) replay of TLC-computed tables through the raw word-level code
//! (hook H1); (b) recording of witness traces on the deployed fields for TLC to validate.
use crate::util::*;
use num_bigint::BigUint;
use num_traits::{One, Zero};
use prio::codec::{Decode, Encode};
use prio::field::{Field128, Field255, Field64, FieldElement, FieldElementWithInteger, FieldPrio2, NttFriendlyFieldElement};
use serde_json::{json, Value};
use std::collections::hash_map::DefaultHasher;
use std::hash::{Hash, Hasher};
use subtle::{Choice, ConditionallyNegatable, ConditionallySelectable, ConstantTimeEq};

pub fn replay(lines: impl Iterator<Item = String>) {
    let mut t = Tally::new();
    for line in lines {
        let v: Value = serde_json::from_str(&line).expect("replay line");
        let set = v["set"].as_str().unwrap();
        let op = v["op"].as_str().unwrap();
        let x = v["x"].as_u64().unwrap_or(0) as u128;
        let ys = u64s(&v["ys"]);
        let zs = u64s(&v["zs"]);
        let unary = matches!(op, "neg" | "inv" | "residue" | "montgomery");
        for (y, z) in ys.iter().zip(zs.iter()) {
            t.evaluations += 1;
            let (a, b) = if unary { (*y as u128, 0) } else { (x, *y as u128) };
            let got = guarded(|| prio::verif::raw_op(set, op, a, b));
            match got {
                Ok(Some(g)) if g == *z as u128 => {}
                other => t.mismatch(
                    &format!("raw/{set}/{op}"),
                    json!({"x": a as u64, "y": b as u64, "expected": z, "got": format!("{other:?}")}),
                ),
            }
        }
        t.sample(json!({"set": set, "op": op, "x": x as u64, "pairs": ys.len()}));
    }
    t.finish(json!({}));
}

/// Prints the constants of every small parameter set, for TLC to check against their definitions.
pub fn params() {
    for set in ["FP17", "FP193", "FP251", "FP241", "FP12289", "FP65521", "FP61441", "FP40961", "FP61441S", "FP12289S"] {
        let (p, mu, r2, g, nr, bm, half, roots) = prio::verif::raw_params(set).unwrap();
        println!(
            "{}",
            json!({"set": set, "prime": p as u64, "mu": mu as u64, "r2": r2 as u64, "g": g as u64, "num_roots": nr,
                   "bit_mask": bm as u64, "half": half as u64, "roots": roots.iter().map(|r| *r as u64).collect::<Vec<_>>()})
        );
    }
}

// ---------------------------------------------------------------------------------------------
// witness traces on the deployed fields

trait Wf: FieldElement {
    const NAME: &'static str;
    /// Field255 documents inv()/div as unimplemented; not exercised there.
    const HAS_INV: bool = true;
    fn prime() -> BigUint;
    fn nat(&self) -> BigUint {
        BigUint::from_bytes_le(&self.get_encoded().unwrap())
    }
    fn of_nat(n: &BigUint) -> Self {
        let mut b = n.to_bytes_le();
        b.resize(Self::ENCODED_SIZE, 0);
        Self::get_decoded(&b).expect("operand below the modulus")
    }
    fn hash64(&self) -> Option<u64>;
    fn pow_checked(&self, _e: u64) -> Option<Self> {
        None
    }
    fn via_int(_n: u128) -> Option<(BigUint, Self)> {
        None
    }
    fn to_int_nat(&self) -> Option<BigUint> {
        None
    }
    fn roots() -> Option<(Vec<Self>, bool, Self, u32)> {
        None
    }
}
macro_rules! wf_int {
    ($f:ty, $name:expr, $int:ty, $p:expr) => {
        impl Wf for $f {
            const NAME: &'static str = $name;
            fn prime() -> BigUint {
                $p
            }
            fn hash64(&self) -> Option<u64> {
                let mut h = DefaultHasher::new();
                self.hash(&mut h);
                Some(h.finish())
            }
            fn pow_checked(&self, e: u64) -> Option<Self> {
                <$int>::try_from(e).ok().map(|e| self.pow(e))
            }
            fn via_int(n: u128) -> Option<(BigUint, Self)> {
                <$int>::try_from(n).ok().map(|i| (BigUint::from(n), <$f>::from(i)))
            }
            fn to_int_nat(&self) -> Option<BigUint> {
                Some(BigUint::from(<$int>::from(*self)))
            }
            fn roots() -> Option<(Vec<Self>, bool, Self, u32)> {
                let mut v = Vec::new();
                let mut l = 0;
                while let Some(r) = <$f>::root(l) {
                    v.push(r);
                    l += 1;
                }
                let beyond = <$f>::root(l + 1).is_some() || <$f>::root(1000).is_some();
                let order = <$f>::generator_order();
                Some((v, beyond, <$f>::generator(), (order.trailing_zeros())))
            }
        }
    };
}
wf_int!(FieldPrio2, "FieldPrio2", u32, BigUint::from(<FieldPrio2 as FieldElementWithInteger>::modulus()));
wf_int!(Field64, "Field64", u64, BigUint::from(<Field64 as FieldElementWithInteger>::modulus()));
wf_int!(Field128, "Field128", u128, BigUint::from(<Field128 as FieldElementWithInteger>::modulus()));
impl Wf for Field255 {
    const NAME: &'static str = "Field255";
    const HAS_INV: bool = false;
    fn prime() -> BigUint {
        (BigUint::one() << 255) - BigUint::from(19u32)
    }
    fn hash64(&self) -> Option<u64> {
        None
    }
    fn via_int(n: u128) -> Option<(BigUint, Self)> {
        u64::try_from(n).ok().map(|i| (BigUint::from(n), Field255::from(i)))
    }
}

fn lattice<F: Wf>(rng: &mut Sm, extra_random: usize, small: bool) -> Vec<BigUint> {
    let p = F::prime();
    let bits = p.bits();
    let mut v: Vec<BigUint> = Vec::new();
    let one = BigUint::one();
    for d in 0u32..4 {
        v.push(BigUint::from(d));
        v.push(&p - BigUint::from(d + 1));
    }
    v.push((&p - &one) >> 1);
    v.push((&p + &one) >> 1);
    let step = if small { 16 } else { 8 };
    let mut k = 1;
    while k < bits {
        for c in [(&one << k) - &one, &one << k, (&one << k) + &one] {
            v.push(c);
        }
        k += if k % 32 == 31 || k % 32 == 0 { 1 } else { step.min(32 - (k % 32) - 1).max(1) };
    }
    // all-ones / single-one limb patterns at 32- and 64-bit limb boundaries
    for limb in [32u64, 64] {
        let n = bits.div_ceil(limb);
        for mask in 0..(1u64 << n.min(4)) {
            let mut x = BigUint::zero();
            for i in 0..n.min(4) {
                if mask >> i & 1 == 1 {
                    x |= ((&one << limb) - &one) << (i * limb);
                }
            }
            v.push(x);
        }
    }
    for _ in 0..extra_random {
        v.push(BigUint::from_bytes_le(&rng.bytes(F::ENCODED_SIZE)));
    }
    let mut out: Vec<BigUint> = v.into_iter().map(|x| x % &p).collect();
    out.sort();
    out.dedup();
    out
}

fn rec_field<F: Wf>(out: &mut Vec<Value>, rng: &mut Sm, tier_small: bool, nrand: usize) {
    let f = F::NAME;
    let p = F::prime();
    let lat = lattice::<F>(rng, if tier_small { 4 } else { 24 }, tier_small);
    let el: Vec<F> = lat.iter().map(F::of_nat).collect();
    let quot = |a: BigUint, z: &BigUint| -> BigUint { if &a >= z { (a - z) / &p } else { BigUint::zero() } };
    // constants
    out.push(json!({"ev":"consts","f":f,"zero":limbs(&F::zero().nat()),"one":limbs(&F::one().nat()),
                    "half":limbs(&F::half().nat()),"modulus":limbs(&p)}));
    // binary operations on all lattice pairs (+ random pairs)
    let mut pairs: Vec<(usize, usize)> = Vec::new();
    for i in 0..el.len() {
        for j in 0..el.len() {
            if !tier_small || (i * 7 + j * 3) % 5 == 0 || i == j || i + j == el.len() - 1 {
                pairs.push((i, j));
            }
        }
    }
    for (i, j) in pairs {
        let (x, y) = (el[i], el[j]);
        let (xn, yn) = (&lat[i], &lat[j]);
        let z = (x + y).nat();
        out.push(json!({"ev":"bin","f":f,"op":"add","x":limbs(xn),"y":limbs(yn),"z":limbs(&z),"q":limbs(&quot(xn + yn, &z))}));
        let z = (x - y).nat();
        let q = if xn >= yn { BigUint::zero() } else { BigUint::one() };
        out.push(json!({"ev":"bin","f":f,"op":"sub","x":limbs(xn),"y":limbs(yn),"z":limbs(&z),"q":limbs(&q)}));
        let z = (x * y).nat();
        out.push(json!({"ev":"bin","f":f,"op":"mul","x":limbs(xn),"y":limbs(yn),"z":limbs(&z),"q":limbs(&quot(xn * yn, &z))}));
        // assign-forms must agree with the operators (compared by the implementation's own equality,
        // itself checked by the "eq" events)
        let mut a = x;
        a += y;
        let mut s = x;
        s -= y;
        let mut m = x;
        m *= y;
        let eqs = a == x + y && s == x - y && m == x * y;
        if !eqs {
            out.push(json!({"ev":"assign_forms_differ","f":f,"x":limbs(xn),"y":limbs(yn)}));
        }
        // equality / hashing / encoding consistency
        let same_enc = x.get_encoded().unwrap() == y.get_encoded().unwrap();
        let hash_eq = match (x.hash64(), y.hash64()) { (Some(a), Some(b)) => a == b, _ => xn == yn };
        out.push(json!({"ev":"eq","f":f,"x":limbs(xn),"y":limbs(yn),"eq": x == y, "ct_eq": bool::from(x.ct_eq(&y)),
                        "enc_eq": same_enc, "hash_eq": hash_eq}));
    }
    // values reached by different computations must be one representation: (x + y) - y vs x etc.
    for i in 0..el.len() {
        let x = el[i];
        let y = el[(i * 5 + 3) % el.len()];
        let a = (x + y) - y;
        let b = x;
        let hash_eq = match (a.hash64(), b.hash64()) { (Some(a), Some(b)) => a == b, _ => true };
        out.push(json!({"ev":"eq","f":f,"x":limbs(&a.nat()),"y":limbs(&b.nat()),"eq": a == b, "ct_eq": bool::from(a.ct_eq(&b)),
                        "enc_eq": a.get_encoded().unwrap() == b.get_encoded().unwrap(), "hash_eq": hash_eq}));
    }
    // unary
    for (i, x) in el.iter().enumerate() {
        let xn = &lat[i];
        let z = (-*x).nat();
        let q = if xn.is_zero() { BigUint::zero() } else { BigUint::one() };
        out.push(json!({"ev":"neg","f":f,"x":limbs(xn),"z":limbs(&z),"q":limbs(&q)}));
        if F::HAS_INV {
            let z = x.inv().nat();
            out.push(json!({"ev":"inv","f":f,"x":limbs(xn),"z":limbs(&z),"q":limbs(&quot(xn * &z, &BigUint::one()))}));
        }
        // select / conditional negate
        let y = el[(i + 1) % el.len()];
        for c in [0u8, 1] {
            let s = F::conditional_select(x, &y, Choice::from(c));
            out.push(json!({"ev":"select","f":f,"a":limbs(xn),"b":limbs(&y.nat()),"c":c,"z":limbs(&s.nat())}));
            let mut n = *x;
            n.conditional_negate(Choice::from(c));
            out.push(json!({"ev":"cneg","f":f,"a":limbs(xn),"c":c,"z":limbs(&n.nat()),"q":limbs(&q)}));
        }
        // encoding
        let enc = x.get_encoded().unwrap();
        let vec: Vec<u8> = (*x).into();
        let int_nat = x.to_int_nat().unwrap_or_else(|| xn.clone());
        out.push(json!({"ev":"encode","f":f,"x":limbs(&int_nat),"bytes":enc,"len":x.encoded_len()}));
        if vec != enc {
            out.push(json!({"ev":"into_vec_differs","f":f}));
        }
    }
    // exponentiation through square-and-multiply witnesses
    let exps: Vec<u64> = vec![0, 1, 2, 3, 4, 5, 7, 8, 15, 16, 255, 256, 65535, 65537, u32::MAX as u64, u64::MAX, rng.next(), rng.next() >> 20];
    for (i, x) in el.iter().enumerate() {
        if tier_small && i % 4 != 0 {
            continue;
        }
        for e in exps.iter().skip(i % 3).step_by(if tier_small { 3 } else { 1 }) {
            if let Some(z) = x.pow_checked(*e) {
                let xn = &lat[i];
                let mut bits = Vec::new();
                let mut steps = Vec::new();
                let mut t = BigUint::one();
                for k in (0..(64 - e.leading_zeros())).rev() {
                    let b = (e >> k) & 1;
                    bits.push(b);
                    let sq = (&t * &t) % &p;
                    steps.push(json!({"a":limbs(&t),"b":limbs(&t),"z":limbs(&sq),"q":limbs(&((&t * &t) / &p))}));
                    t = sq;
                    if b == 1 {
                        let ml = (&t * xn) % &p;
                        steps.push(json!({"a":limbs(&t),"b":limbs(xn),"z":limbs(&ml),"q":limbs(&((&t * xn) / &p))}));
                        t = ml;
                    }
                }
                out.push(json!({"ev":"pow","f":f,"x":limbs(xn),"e":e.to_string(),"bits":bits,"steps":steps,"z":limbs(&z.nat())}));
            }
        }
    }
    // integer conversions, including integers at and above the modulus
    let mut ints: Vec<u128> = vec![0, 1, 2, u32::MAX as u128 - 1, u32::MAX as u128, u64::MAX as u128 - 1, u64::MAX as u128, u128::MAX - 1, u128::MAX,
                                   1 << 31, 1 << 32, 1 << 63, 1 << 64, 1 << 127];
    if let Ok(pp) = u128::try_from(p.clone()) {
        for d in 0..3u128 {
            ints.push(pp - 1 - d);
            ints.push(pp.saturating_add(d));
        }
    }
    for _ in 0..nrand {
        ints.push(((rng.next() as u128) << 64 | rng.next() as u128) >> rng.below(128));
    }
    for n in ints {
        if let Ok(Some((nn, x))) = guarded(|| F::via_int(n)) {
            let z = x.nat();
            out.push(json!({"ev":"from_int","f":f,"n":limbs(&nn),"z":limbs(&z),"q":limbs(&(&nn / &p))}));
        } else if F::via_int(0).is_some() && guarded(|| F::via_int(n)).is_err() {
            out.push(json!({"ev":"from_int_panicked","f":f,"n":n.to_string()}));
        }
    }
    // decoding of arbitrary byte strings: canonical iff below the modulus
    let pbytes = { let mut b = p.to_bytes_le(); b.resize(F::ENCODED_SIZE, 0); b };
    let mut cands: Vec<Vec<u8>> = vec![pbytes.clone(), vec![0xff; F::ENCODED_SIZE], vec![0; F::ENCODED_SIZE]];
    for d in 1..4u32 {
        for v in [&p - BigUint::from(d), &p + BigUint::from(d)] {
            let mut b = v.to_bytes_le();
            b.resize(F::ENCODED_SIZE, 0);
            cands.push(b);
        }
    }
    for i in 0..F::ENCODED_SIZE {
        let mut b = pbytes.clone();
        b[i] = b[i].wrapping_add(1);
        cands.push(b.clone());
        b[i] = b[i].wrapping_sub(2);
        cands.push(b);
        let mut b = vec![0xffu8; F::ENCODED_SIZE];
        b[i] = 0x7f;
        cands.push(b);
    }
    for _ in 0..nrand {
        cands.push(rng.bytes(F::ENCODED_SIZE));
    }
    for b in cands {
        let d = F::get_decoded(&b);
        let t = F::try_from(&b[..]);
        let z = d.as_ref().map(|x| x.nat()).unwrap_or_default();
        out.push(json!({"ev":"decode","f":f,"bytes":b,"ok":d.is_ok(),"z":limbs(&z)}));
        if d.is_ok() != t.is_ok() || (d.is_ok() && d.unwrap() != t.unwrap()) {
            out.push(json!({"ev":"decode_and_try_from_differ","f":f,"bytes":b}));
        }
        let r = F::try_from_random(&b);
        let z = r.as_ref().map(|x| x.nat()).unwrap_or_default();
        out.push(json!({"ev":"random","f":f,"bytes":b,"ok":r.is_ok(),"z":limbs(&z)}));
        let short = &b[..b.len() - 1];
        out.push(json!({"ev":"short","f":f,"bytes":short,"ok":F::try_from(short).is_ok() || F::try_from_random(short).is_ok() || F::get_decoded(short).is_ok()}));
    }
    // roots of unity and generator
    if let Some((roots, beyond, g, log_order)) = F::roots() {
        let vals: Vec<BigUint> = roots.iter().map(|r| r.nat()).collect();
        let qs: Vec<Value> = vals.iter().map(|v| limbs(&((v * v) / &p))).collect();
        out.push(json!({"ev":"rootchain","f":f,"vals":vals.iter().map(limbs).collect::<Vec<_>>(),"qs":qs,"beyond":beyond}));
        let mut chain = vec![g.nat()];
        let mut cur = g;
        for _ in 0..log_order {
            cur = cur * cur;
            chain.push(cur.nat());
        }
        let qs: Vec<Value> = chain.iter().map(|v| limbs(&((v * v) / &p))).collect();
        out.push(json!({"ev":"genchain","f":f,"vals":chain.iter().map(limbs).collect::<Vec<_>>(),"qs":qs,"log_order":log_order,
                        "top_root":limbs(vals.last().unwrap())}));
    }
}

pub fn record(args: &[String]) {
    let path = &args[0];
    let seed: u64 = args[1].parse().unwrap();
    let small = args[2] == "quick";
    let mut rng = Sm(seed);
    let mut out = Vec::new();
    let nrand = if small { 8 } else { 64 };
    rec_field::<FieldPrio2>(&mut out, &mut rng, small, nrand);
    rec_field::<Field64>(&mut out, &mut rng, small, nrand);
    rec_field::<Field128>(&mut out, &mut rng, small, nrand);
    rec_field::<Field255>(&mut out, &mut rng, small, nrand);
    // integers <-> bit vectors (encode_as_bitvector / decode_bitvector) at every bit length around the modulus width
    macro_rules! bitvec {
        ($F:ty, $I:ty, $name:expr, $w:expr) => {{
            use prio::field::FieldElementWithInteger;
            for bits in [0usize, 1, 2, $w / 2, $w - 2, $w - 1, $w, $w + 1, 2 * $w] {
                let top: u128 = if bits >= 128 { u128::MAX } else { (1u128 << bits) - 1 };
                for x in [0u128, 1, top, top.wrapping_add(1), top / 2 + 1] {
                    if x > <$I>::MAX as u128 { continue; }
                    let xi = x as $I;
                    let r = guarded(|| <$F>::encode_as_bitvector(xi, bits).map(|it| it.map(|e| Wf::nat(&e)).collect::<Vec<_>>()));
                    let (ok, digits, panic) = match r { Ok(Ok(d)) => (true, d, false), Ok(Err(_)) => (false, vec![], false), Err(_) => (false, vec![], true) };
                    out.push(json!({"ev":"bitvec_enc","f":$name,"bits":bits,"x":limbs(&BigUint::from(x)),"ok":ok,"panic":panic,
                                    "digits":digits.iter().map(|d| if d.is_zero() { 0 } else if d.is_one() { 1 } else { 2 }).collect::<Vec<u8>>()}));
                }
                // decoding the all-ones vector and a 1,0,1,0,.. vector of that length
                for pat in 0..2u8 {
                    let v: Vec<$F> = (0..bits).map(|i| if pat == 0 || i % 2 == 0 { <$F>::one() } else { <$F>::zero() }).collect();
                    let r = guarded(|| <$F>::decode_bitvector(&v).map(|e| Wf::nat(&e)));
                    let (ok, z, panic) = match r { Ok(Ok(z)) => (true, z, false), Ok(Err(_)) => (false, BigUint::zero(), false), Err(_) => (false, BigUint::zero(), true) };
                    out.push(json!({"ev":"bitvec_dec","f":$name,"bits":bits,"pat":pat,"ok":ok,"panic":panic,"z":limbs(&z)}));
                }
            }
        }};
    }
    bitvec!(FieldPrio2, u32, "FieldPrio2", 32usize);
    bitvec!(Field64, u64, "Field64", 64usize);
    bitvec!(Field128, u128, "Field128", 128usize);
    let mut s = String::new();
    for e in &out {
        s.push_str(&e.to_string());
        s.push('\n');
    }
    std::fs::write(path, s).unwrap();
    emit(json!({"t":"summary","evaluations":out.len(),"mismatches":0,"extra":{"events":out.len()}}));
}
