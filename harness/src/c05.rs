//! C05: replay of TLC-computed FLP behaviours through the real `Flp::{prove, query, decide, valid}`,
//! `Type::{encode_measurement, truncate}` and the `*_len` getters on the tiny fields.
use crate::circuits::*;
use crate::util::*;
use crate::{with_circuit, with_field};
use prio::flp::{Flp, Type};
use serde_json::{json, Value};

fn run_case<F: TinyField, T: Type<Field = F> + FromSpec>(t: &T, v: &Value, tl: &mut Tally) {
    let kind = v["c"]["kind"].as_str().unwrap();
    let p = v["p"].as_u64().unwrap();
    let case = |w: &str| format!("flp/p{p}/{kind}/{w}");
    let ctx = |extra: Value| json!({"c": v["c"], "inp": v["inp"], "pr": v["pr"], "jr": v["jr"], "qr": v["qr"], "ns": v["ns"], "more": extra});
    match v["t"].as_str().unwrap() {
        "run" => {
            tl.evaluations += 1;
            let inp: Vec<F> = fvec(&v["inp"]);
            let pr: Vec<F> = fvec(&v["pr"]);
            let jr: Vec<F> = fvec(&v["jr"]);
            let qr: Vec<F> = fvec(&v["qr"]);
            let ns = v["ns"].as_u64().unwrap() as usize;
            // declared lengths
            let l = &v["lens"];
            let got = json!({"input": t.input_len(), "proof": t.proof_len(), "verifier": t.verifier_len(), "prove_rand": t.prove_rand_len(),
                "joint_rand": t.joint_rand_len(), "query_rand": t.query_rand_len(), "output": t.output_len(), "eval_out": t.eval_output_len()});
            if &got != l {
                tl.mismatch(&case("lens"), ctx(json!({"expected": l, "got": got})));
            }
            // prove
            match guarded(|| t.prove(&inp, &pr, &jr)) {
                Ok(Ok(pf)) if json!(ints(&pf)) == v["proof"] => {}
                other => tl.mismatch(&case("prove"), ctx(json!({"expected": v["proof"], "got": format!("{:?}", other.map(|r| r.map(|p| ints(&p))))}))),
            }
            // circuit evaluated directly
            match guarded(|| t.valid(&mut t.gadget(), &inp, &jr, 1)) {
                Ok(Ok(o)) if json!(ints(&o)) == v["validout"] => {}
                other => tl.mismatch(&case("valid"), ctx(json!({"expected": v["validout"], "got": format!("{:?}", other.map(|r| r.map(|p| ints(&p))))}))),
            }
            match guarded(|| t.truncate(inp.clone())) {
                Ok(Ok(o)) if json!(ints(&o)) == v["trunc"] => {}
                other => tl.mismatch(&case("truncate"), ctx(json!({"expected": v["trunc"], "got": format!("{:?}", other.map(|r| r.map(|p| ints(&p))))}))),
            }
            // query on every share
            let root = v["root"].as_bool().unwrap();
            let ish = v["ishares"].as_array().unwrap();
            let psh = v["pshares"].as_array().unwrap();
            let mut total: Vec<F> = vec![F::zero(); t.verifier_len()];
            let mut all_ok = true;
            for k in 0..ns {
                let xi: Vec<F> = fvec(&ish[k]);
                let pi: Vec<F> = fvec(&psh[k]);
                let r = guarded(|| t.query(&xi, &pi, &qr, &jr, ns));
                match (root, r) {
                    (true, Ok(Err(_))) => {
                        all_ok = false;
                    }
                    (false, Ok(Ok(vf))) if json!(ints(&vf)) == v["vshares"][k] => {
                        for (a, b) in total.iter_mut().zip(vf.iter()) {
                            *a += *b;
                        }
                    }
                    (_, other) => {
                        all_ok = false;
                        tl.mismatch(&case(if root { "query_root_not_refused" } else { "query" }),
                            ctx(json!({"share": k, "expected": if root { json!("Err") } else { v["vshares"][k].clone() },
                                       "got": format!("{:?}", other.map(|r| r.map(|p| ints(&p))))})));
                    }
                }
            }
            if !root && all_ok {
                match guarded(|| t.decide(&total)) {
                    Ok(Ok(d)) if json!(d) == v["decide"] => {}
                    other => tl.mismatch(&case("decide"), ctx(json!({"expected": v["decide"], "got": format!("{other:?}")}))),
                }
            }
            tl.sample(json!({"c": v["c"], "inp": v["inp"], "ns": ns, "root": root, "decide": v["decide"]}));
        }
        "enc" => {
            tl.evaluations += 1;
            let m = T::meas(&v["m"]);
            match guarded(|| t.encode_measurement(&m)) {
                Ok(Ok(e)) if json!(ints(&e)) == v["enc"] => {}
                other => tl.mismatch(&case("encode_measurement"), json!({"c": v["c"], "m": v["m"], "expected": v["enc"],
                    "got": format!("{:?}", other.map(|r| r.map(|p| ints(&p))))})),
            }
        }
        "probe" => {
            let mk = |n: u64| -> Vec<F> { (0..n).map(|i| fe::<F>(1 + (i % 3))).collect() };
            for pb in v["probes"].as_array().unwrap() {
                tl.evaluations += 1;
                let lens = u64s(&pb["lens"]);
                let ok = pb["ok"].as_bool().unwrap();
                let op = pb["op"].as_str().unwrap();
                let got: Result<bool, String> = match op {
                    "prove" => guarded(|| t.prove(&mk(lens[0]), &mk(lens[1]), &mk(lens[2])).is_ok()),
                    // query point 2.. is not a root of unity of small order for the patterns used; a
                    // refusal for that reason would show up as a mismatch on the all-zero-delta probe
                    "query" => guarded(|| {
                        let mut qr = mk(lens[2]);
                        if let Some(last) = qr.last_mut() {
                            *last = fe::<F>(3);
                        }
                        t.query(&mk(lens[0]), &mk(lens[1]), &qr, &mk(lens[3]), 2).is_ok()
                    }),
                    "decide" => guarded(|| t.decide(&mk(lens[0])).is_ok()),
                    _ => unreachable!(),
                };
                if got != Ok(ok) {
                    tl.mismatch(&case(&format!("length_check_{op}")), json!({"c": v["c"], "lens": lens, "expected_ok": ok, "got": format!("{got:?}")}));
                }
            }
        }
        _ => unreachable!(),
    }
}

pub fn replay(lines: impl Iterator<Item = String>) {
    let mut tl = Tally::new();
    for line in lines {
        let v: Value = serde_json::from_str(&line).expect("replay line");
        let p = v["p"].as_u64().unwrap();
        with_field!(p, F, with_circuit!(F, &v["c"], t, run_case::<F, _>(&t, &v, &mut tl)));
    }
    tl.finish(json!({}));
}
