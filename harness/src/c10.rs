//! C10: replay of TLC-computed outputs of the NTT / Lagrange routines through hook H2.
use crate::circuits::*;
use crate::util::*;
use crate::with_field;
use prio::verif::poly;
use serde_json::{json, Value};

fn run<F: TinyField>(v: &Value, tl: &mut Tally) {
    let p = v["p"].as_u64().unwrap();
    let op = v["op"].as_str().unwrap();
    let n = v["n"].as_u64().unwrap() as usize;
    let case = format!("ntt/p{p}/{op}");
    tl.evaluations += 1;
    let exp = &v["out"];
    let show = |r: Result<Result<Vec<F>, String>, String>| -> Value {
        match r {
            Ok(Ok(x)) => json!(ints(&x)),
            Ok(Err(e)) => json!(e),
            Err(p) => json!(format!("panic: {p}")),
        }
    };
    let got: Value = match op {
        "ntt" => {
            let inp: Vec<F> = fvec(&v["inp"]);
            let sets = v["sets"].as_bool().unwrap();
            show(guarded(|| poly::ntt(n, &inp, n, sets)))
        }
        "ntt_inv" => {
            let inp: Vec<F> = fvec(&v["inp"]);
            show(guarded(|| poly::ntt_inv(n, &inp, n)))
        }
        "eval" => {
            let polys: Vec<Vec<F>> = v["polys"].as_array().unwrap().iter().map(|x| fvec(x)).collect();
            let x = fe::<F>(v["x"].as_u64().unwrap());
            let single: Vec<Vec<F>> = vec![polys[0].clone()];
            let a = guarded(|| poly::eval_lagrange_batched(&polys, x));
            // the single-polynomial form and the NTT-based evaluation must agree with the batched one
            let b = guarded(|| poly::eval_lagrange_batched(&single, x));
            let c = guarded(|| poly::interpret_eval(&polys[0], x));
            if let (Ok(a), Ok(b), Ok(c)) = (&a, &b, &c) {
                if a[0] != b[0] || a[0] != *c {
                    tl.mismatch(&format!("{case}_forms_differ"), json!({"n": n, "x": v["x"], "poly": v["polys"][0]}));
                }
            }
            show(a.map(Ok))
        }
        "extend" => {
            let vals: Vec<F> = fvec(&v["vals"]);
            let num = v["num"].as_u64().unwrap() as usize;
            // positions >= num are overwritten: feed garbage there
            let mut inp = vals.clone();
            for x in inp.iter_mut().skip(num) {
                *x = fe::<F>(7);
            }
            show(guarded(|| poly::extend_values_to_power_of_2(&inp, num)).map(Ok))
        }
        "double" => {
            let e: Vec<F> = fvec(&v["evals"]);
            show(guarded(|| poly::double_evaluations(2 * n, &e)))
        }
        "mul" => {
            let (a, b): (Vec<F>, Vec<F>) = (fvec(&v["f"]), fvec(&v["g"]));
            show(guarded(|| poly::mul_lagrange(2 * n, &a, &b)))
        }
        "roots" => show(guarded(|| poly::nth_root_powers::<F>(n)).map(Ok)),
        "range" => show(guarded(|| poly::range_check::<F>(v["start"].as_u64().unwrap() as usize, v["end"].as_u64().unwrap() as usize)).map(Ok)),
        "verdict_ntt" => {
            let ol = v["outlen"].as_u64().unwrap() as usize;
            let sets = v["sets"].as_bool().unwrap();
            let inp: Vec<F> = (0..n.max(1)).map(|i| fe::<F>(i as u64 % 3)).collect();
            match guarded(|| poly::ntt(ol, &inp, n, sets)) {
                Ok(Ok(_)) => json!("Ok"),
                Ok(Err(e)) => json!(e),
                Err(p) => json!(format!("panic: {p}")),
            }
        }
        "verdict_double" => {
            let ol = v["outlen"].as_u64().unwrap() as usize;
            let inp: Vec<F> = (0..n).map(|i| fe::<F>(i as u64 % 3)).collect();
            match guarded(|| poly::double_evaluations(ol, &inp)) {
                Ok(Ok(_)) => json!("Ok"),
                Ok(Err(e)) => json!(e),
                Err(p) => json!(format!("panic: {p}")),
            }
        }
        _ => unreachable!(),
    };
    if &got != exp {
        let mut d = v.clone();
        d["got"] = got;
        tl.mismatch(&case, d);
    }
    if tl.evaluations % 200 == 1 {
        tl.sample(json!({"p": p, "op": op, "n": n}));
    }
}

pub fn replay(lines: impl Iterator<Item = String>) {
    let mut tl = Tally::new();
    for line in lines {
        let v: Value = serde_json::from_str(&line).expect("replay line");
        let p = v["p"].as_u64().unwrap();
        with_field!(p, F, run::<F>(&v, &mut tl));
    }
    tl.finish(json!({}));
}

/// Size/capacity boundaries on the deployed fields (no numeric recomputation there): the verdict
/// table comes from the spec's NttVerdict on stdin.
pub fn big_verdicts(lines: impl Iterator<Item = String>) {
    use prio::field::{Field128, Field64, FieldElement, FieldPrio2};
    let mut tl = Tally::new();
    fn one<F: prio::field::NttFriendlyFieldElement>(name: &str, v: &Value, tl: &mut Tally) {
        let n = v["n"].as_u64().unwrap() as usize;
        let ol = v["outlen"].as_u64().unwrap() as usize;
        let sets = v["sets"].as_bool().unwrap();
        let inp = vec![F::one(); 2];
        tl.evaluations += 1;
        if v["op"] == "verdict_double_big" {
            // doubling and Lagrange multiplication of n evaluations of the constant polynomials 1 (resp. 1 and 1) into `ol` evaluations
            let ones = vec![F::one(); n];
            for (what, r) in [("double", guarded(|| poly::double_evaluations(ol, &ones))), ("mul_lagrange", guarded(|| poly::mul_lagrange(ol, &ones, &ones)))] {
                let got = match r {
                    Ok(Ok(out)) => if out.iter().all(|x| *x == F::one()) { "Ok".to_string() } else { "Ok but the constant polynomial did not double to itself".to_string() },
                    Ok(Err(e)) => e,
                    Err(p) => format!("panic: {p}"),
                };
                if json!(got) != v["out"] {
                    tl.mismatch(&format!("ntt/{name}/{what}_size_verdict"), json!({"n": n, "outlen": ol, "expected": v["out"], "got": got}));
                }
            }
            return;
        }
        let got = match guarded(|| poly::ntt(ol, &inp, n, sets)) {
            Ok(Ok(_)) => "Ok".to_string(),
            Ok(Err(e)) => e,
            Err(p) => format!("panic: {p}"),
        };
        if json!(got) != v["out"] {
            tl.mismatch(&format!("ntt/{name}/size_verdict"), json!({"n": n, "outlen": ol, "sets": sets, "expected": v["out"], "got": got}));
        }
    }
    for line in lines {
        let v: Value = serde_json::from_str(&line).unwrap();
        one::<Field64>("Field64", &v, &mut tl);
        one::<Field128>("Field128", &v, &mut tl);
        one::<FieldPrio2>("FieldPrio2", &v, &mut tl);
    }
    tl.finish(json!({}));
}
