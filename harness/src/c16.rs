//! C16: executes the judged argument-domain cases on the real public API. One case at a time,
//! journalled on stdout ("START id" / "DONE {json}") so that an abort is attributed to its case.
use crate::util::*;
use prio::codec::{Decode, Encode, ParameterizedDecode};
use prio::dp::distributions::{DiscreteGaussian, DiscreteLaplace};
use prio::dp::{PureDpBudget, Rational, ZCdpBudget};
use prio::field::{Field128, Field64, FieldElement, FieldElementWithInteger};
use prio::flp::gadgets::{Mul, ParallelSum};
use prio::flp::types::{Average, Count, Histogram, L1BoundSum, MultihotCountVec, Sum, SumVec};
use prio::flp::{Flp, Type};
use prio::idpf::IdpfInput;
use prio::vdaf::poplar1::{Poplar1, Poplar1AggregationParam};
use prio::vdaf::prio2::Prio2;
use prio::vdaf::prio3::{Prio3, Prio3Average, Prio3Count, Prio3Histogram, Prio3Sum, Prio3SumVec};
use prio::vdaf::test_utils::run_vdaf;
use prio::vdaf::xof::XofTurboShake128;
use prio::vdaf::{Aggregatable, Aggregator, Client, Collector, Vdaf, VerifyTransition};
use serde_json::{json, Value};
use std::io::Write;

enum Out {
    Ok,
    Err,
    Unusable(String),
}
type R = Result<Out, String>; // Err(String) = panic message

fn s(v: &Value, k: &str) -> u128 {
    v[k].as_str().unwrap_or_else(|| panic!("missing {k}")).parse::<u128>().unwrap()
}
fn us(v: &Value, k: &str) -> usize {
    s(v, k) as usize
}
fn small(v: &Value, k: &str) -> u64 {
    v[k].as_u64().unwrap()
}

/// After a constructor said Ok: are the declared sizes callable, and (within the memory budget) does
/// the instance shard, verify, aggregate and unshard?
fn probe_type<T: Type>(t: &T) -> Result<(), String> {
    guarded(|| {
        let _ = (t.input_len(), t.proof_len(), t.verifier_len(), t.prove_rand_len(), t.query_rand_len(), t.joint_rand_len(), t.output_len(), t.eval_output_len());
    })
}
fn flow<V, const S: usize>(v: &V, m: V::Measurement) -> Result<(), String>
where
    V: Client<16> + Aggregator<S, 16> + Collector,
    V::AggregationParam: Default,
{
    match guarded(|| run_vdaf(b"c16", v, &V::AggregationParam::default(), [m]).map(|_| ())) {
        Ok(Ok(())) => Ok(()),
        Ok(Err(e)) => Err(format!("round trip failed: {e}")),
        Err(p) => Err(format!("round trip panicked: {p}")),
    }
}
fn typ_result<T: Type>(r: Result<T, prio::flp::FlpError>, usable: bool, m: impl FnOnce(&T) -> T::Measurement) -> Out
where
    T::Measurement: Clone,
{
    match r {
        Err(_) => Out::Err,
        Ok(t) => {
            if let Err(p) = probe_type(&t) {
                return Out::Unusable(format!("declared lengths: {p}"));
            }
            if usable {
                let meas = m(&t);
                let v: Prio3<T, XofTurboShake128, 32> = match Prio3::new(2, 1, 0xffff_1600, t) {
                    Ok(v) => v,
                    Err(e) => return Out::Unusable(format!("Prio3::new: {e}")),
                };
                if let Err(e) = flow::<_, 32>(&v, meas) {
                    return Out::Unusable(e);
                }
            }
            Out::Ok
        }
    }
}
fn vdaf_result<V, const S: usize>(r: Result<V, prio::vdaf::VdafError>, usable: bool, m: impl FnOnce() -> V::Measurement) -> Out
where
    V: Client<16> + Aggregator<S, 16> + Collector,
    V::AggregationParam: Default,
{
    match r {
        Err(_) => Out::Err,
        Ok(v) => {
            if usable {
                if let Err(e) = flow::<_, S>(&v, m()) {
                    return Out::Unusable(e);
                }
            }
            Out::Ok
        }
    }
}
macro_rules! by_field {
    ($c:expr, $F:ident, $body:expr) => {
        match $c["f"].as_str().unwrap() {
            "Field64" => { type $F = Field64; $body }
            _ => { type $F = Field128; $body }
        }
    };
}
fn int<F: FieldElementWithInteger>(v: u128) -> Option<F::Integer>
where
    F::Integer: TryFrom<u128>,
{
    F::Integer::try_from(v).ok()
}
fn okerr<T, E>(r: Result<T, E>) -> Out {
    if r.is_ok() { Out::Ok } else { Out::Err }
}

type P3C = Prio3Count;
fn count_setup(nagg: u8) -> (P3C, Vec<u8>, [u8; 16], [u8; 32]) {
    (Prio3::new_count(nagg).unwrap(), b"c16".to_vec(), [7u8; 16], [9u8; 32])
}

fn exec(c: &Value) -> R {
    let op = c["op"].as_str().unwrap().to_string();
    let usable = c["usable"].as_bool().unwrap_or(false);
    guarded(move || -> Out {
        match op.as_str() {
            "sum_new" => by_field!(c, F, {
                let Some(max) = int::<F>(s(c, "max_s")) else { return Out::Err };
                typ_result(Sum::<F>::new(max), usable, |_| max)
            }),
            "sumvec_new" => by_field!(c, F, {
                let Some(max) = int::<F>(s(c, "max_s")) else { return Out::Err };
                let len = us(c, "len_s");
                typ_result(SumVec::<F, ParallelSum<F, Mul>>::new(max, len, us(c, "chunk_s")), usable, |_| vec![max; len])
            }),
            "l1boundsum_new" => by_field!(c, F, {
                let Some(max) = int::<F>(s(c, "max_s")) else { return Out::Err };
                let len = us(c, "len_s");
                typ_result(L1BoundSum::<F, ParallelSum<F, Mul>>::new(max, len, us(c, "chunk_s")), usable, |_| {
                    let mut m = vec![int::<F>(0).unwrap(); len];
                    m[0] = max;
                    m
                })
            }),
            "histogram_new" => by_field!(c, F, {
                let len = us(c, "len_s");
                typ_result(Histogram::<F, ParallelSum<F, Mul>>::new(len, us(c, "chunk_s")), usable, |_| len - 1)
            }),
            "multihot_new" => by_field!(c, F, {
                let (len, w) = (us(c, "len_s"), us(c, "maxw_s"));
                typ_result(MultihotCountVec::<F, ParallelSum<F, Mul>>::new(len, w, us(c, "chunk_s")), usable, |_| (0..len).map(|i| i < w).collect())
            }),
            "prio3_new" => {
                let r = Prio3::<Count<Field64>, XofTurboShake128, 32>::new(small(c, "nagg") as u8, small(c, "np") as u8, 0xffff_1601, Count::new());
                vdaf_result::<_, 32>(r, usable, || true)
            }
            "alias_count" => vdaf_result::<_, 32>(Prio3::new_count(small(c, "nagg") as u8), usable, || true),
            "alias_sum" => { let m = s(c, "max_s") as u64; vdaf_result::<_, 32>(Prio3::new_sum(small(c, "nagg") as u8, m), usable, || m) }
            // (the aggregate of an Average must fit a u64 to be decoded, so the follow-up uses a small measurement)
            "alias_average" => { let m = s(c, "max_s"); vdaf_result::<_, 32>(Prio3::new_average(small(c, "nagg") as u8, m), usable, || m.min(1 << 32)) }
            "alias_sumvec" => {
                let (m, len) = (s(c, "max_s"), us(c, "len_s"));
                vdaf_result::<_, 32>(Prio3::new_sum_vec(small(c, "nagg") as u8, m, len, us(c, "chunk_s")), usable, || vec![m; len])
            }
            "alias_histogram" => {
                let len = us(c, "len_s");
                vdaf_result::<_, 32>(Prio3::new_histogram(small(c, "nagg") as u8, len, us(c, "chunk_s")), usable, || len - 1)
            }
            "prio2_new" => {
                let n = us(c, "n_s");
                vdaf_result::<_, 32>(Prio2::new(n), usable, || vec![1u32; n])
            }
            "rational" => okerr(Rational::from_unsigned(s(c, "n_s") as u64, s(c, "d_s") as u64)),
            "rational_f32" => {
                let x: f32 = c["lit"].as_str().unwrap().parse().unwrap();
                match Rational::try_from(x) {
                    // usable: a budget can be built from it unless it is zero
                    Ok(r) => { let _ = PureDpBudget::new(r); Out::Ok }
                    Err(_) => Out::Err,
                }
            }
            "zcdp_budget" => okerr(ZCdpBudget::new(Rational::from_unsigned(s(c, "n_s") as u64, s(c, "d_s") as u64).unwrap())),
            "puredp_budget" => okerr(PureDpBudget::new(Rational::from_unsigned(s(c, "n_s") as u64, s(c, "d_s") as u64).unwrap())),
            "laplace_new" => okerr(DiscreteLaplace::new(Rational::from_unsigned(s(c, "n_s") as u64, s(c, "d_s") as u64).unwrap())),
            "gaussian_new" => okerr(DiscreteGaussian::new(Rational::from_unsigned(s(c, "n_s") as u64, s(c, "d_s") as u64).unwrap())),
            // ---- measurements ----
            "shard_sum" => {
                let v = Prio3::new_sum(2, 6).unwrap();
                let m = u64::try_from(s(c, "m_s")).unwrap();
                let a = Prio3::new_average(2, 6).unwrap();
                let r1 = v.shard(b"c16", &m, &[1; 16]).is_ok();
                let r2 = a.shard(b"c16", &(m as u128), &[1; 16]).is_ok();
                if r1 != r2 { return Out::Unusable("Sum and Average disagree".into()); }
                if r1 { Out::Ok } else { Out::Err }
            }
            "shard_histogram" => okerr(Prio3::new_histogram(2, 4, 2).unwrap().shard(b"c16", &us(c, "m_s"), &[1; 16])),
            "shard_sumvec" => {
                let m: Vec<u128> = c["m_s"].as_array().unwrap().iter().map(|x| x.as_str().unwrap().parse().unwrap()).collect();
                okerr(Prio3::new_sum_vec(2, 3, 3, 2).unwrap().shard(b"c16", &m, &[1; 16]))
            }
            "shard_multihot" => {
                let m: Vec<bool> = c["m_s"].as_array().unwrap().iter().map(|x| x.as_str().unwrap() == "1").collect();
                okerr(Prio3::new_multihot_count_vec(2, 4, 2, 2).unwrap().shard(b"c16", &m, &[1; 16]))
            }
            "shard_l1boundsum" => {
                let m: Vec<u128> = c["m_s"].as_array().unwrap().iter().map(|x| x.as_str().unwrap().parse().unwrap()).collect();
                // bound and length come from the case (default: max 3, len 2): bounds up to p - 1, where the norm of in-range
                // elements can pass the modulus or the integer width
                let max: u128 = c.get("max_s").and_then(|x| x.as_str()).map(|x| x.parse().unwrap()).unwrap_or(3);
                let len: usize = c.get("len_s").and_then(|x| x.as_str()).map(|x| x.parse().unwrap()).unwrap_or(2);
                okerr(Prio3::new_l1_bound_sum(2, max, len, 2).unwrap().shard(b"c16", &m, &[1; 16]))
            }
            "shard_prio2" => okerr(Prio2::new(4).unwrap().shard(b"c16", &vec![1u32; small(c, "mlen") as usize], &[1; 16])),
            "shard_poplar1" => {
                let v = Poplar1::new_turboshake128(small(c, "bits") as usize);
                let m = IdpfInput::from_bools(&vec![true; small(c, "mbits") as usize]);
                okerr(v.shard(b"c16", &m, &[1; 16]))
            }
            // ---- roles and counts ----
            "vinit_prio3" | "s2m_prio3" => {
                let nagg = small(c, "nagg") as u8;
                let id = if op == "vinit_prio3" { us(c, "aid_s") } else { 0 };
                let cnt = if op == "s2m_prio3" { small(c, "count") as usize } else { 0 };
                let is_vinit = op == "vinit_prio3";
                // the same role / count scenario over types with and without joint randomness and with two proofs
                fn go<V: Client<16> + Aggregator<32, 16, AggregationParam = ()>>(v: V, m: V::Measurement, nagg: u8, is_vinit: bool, id: usize, cnt: usize) -> Out
                where V::InputShare: Clone, V::VerifierShare: Clone {
                    let (ctx, nonce, key) = (b"c16".to_vec(), [7u8; 16], [9u8; 32]);
                    let (ps, shares) = v.shard(&ctx, &m, &nonce).unwrap();
                    if is_vinit {
                        let share = shares[id.min(nagg as usize - 1)].clone();
                        return okerr(v.verify_init(&key, &ctx, id, &(), &nonce, &ps, &share));
                    }
                    let vs: Vec<_> = shares.iter().enumerate().map(|(j, sh)| v.verify_init(&key, &ctx, j, &(), &nonce, &ps, sh).unwrap().1).collect();
                    // honest shares first, then repeats of the last one
                    let list: Vec<_> = (0..cnt).map(|k| vs[k.min(vs.len() - 1)].clone()).collect();
                    okerr(v.verifier_shares_to_message(&ctx, &(), list))
                }
                match c["kind"].as_str().unwrap_or("count") {
                    "histogram" => go(Prio3::new_histogram(nagg, 4, 2).unwrap(), 2usize, nagg, is_vinit, id, cnt),
                    "sum" => go(Prio3::new_sum(nagg, 6).unwrap(), 5u64, nagg, is_vinit, id, cnt),
                    "sumvec2proofs" => go(Prio3::<SumVec<Field64, ParallelSum<Field64, Mul>>, XofTurboShake128, 32>::new(nagg, 2, 0xffff_1602, SumVec::new(3, 3, 2).unwrap()).unwrap(),
                                          vec![1u64, 2, 3], nagg, is_vinit, id, cnt),
                    _ => go(Prio3::new_count(nagg).unwrap(), true, nagg, is_vinit, id, cnt),
                }
            }
            "vinit_prio2" => {
                let v = Prio2::new(3).unwrap();
                let (_, shares) = v.shard(b"c16", &vec![1, 0, 1], &[1; 16]).unwrap();
                let id = us(c, "aid_s");
                okerr(v.verify_init(&[3; 32], b"c16", id, &(), &[1; 16], &(), &shares[id.min(1)]))
            }
            "s2m_prio2" => {
                let v = Prio2::new(3).unwrap();
                let (_, shares) = v.shard(b"c16", &vec![1, 0, 1], &[1; 16]).unwrap();
                let vs: Vec<_> = (0..2).map(|j| v.verify_init(&[3; 32], b"c16", j, &(), &[1; 16], &(), &shares[j]).unwrap().1).collect();
                let cnt = small(c, "count") as usize;
                okerr(v.verifier_shares_to_message(b"c16", &(), (0..cnt).map(|k| vs[k.min(1)].clone())))
            }
            "poplar1_unshard" | "poplar1_aggregate" => {
                // aggregate shares shaped by one aggregation parameter offered under another (all of them alike)
                let v = Poplar1::new_turboshake128(3);
                let mkap = |leaf: bool, n: usize| -> Poplar1AggregationParam {
                    let level = if leaf { 2 } else { 1 };
                    let ps: Vec<IdpfInput> = (0..n).map(|k| IdpfInput::from_bools(&(0..=level).map(|i| (k >> (level - i)) & 1 == 1).collect::<Vec<_>>())).collect();
                    Poplar1AggregationParam::try_from_prefixes(ps).unwrap()
                };
                let ap = mkap(c["pleaf"].as_bool().unwrap(), small(c, "pn") as usize);
                let shape = mkap(c["sleaf"].as_bool().unwrap(), small(c, "sn") as usize);
                use prio::vdaf::{Aggregator, Collector};
                if op == "poplar1_unshard" {
                    okerr(v.unshard(&ap, [v.aggregate_init(&shape), v.aggregate_init(&shape)], 1))
                } else {
                    okerr(Aggregator::<32, 16>::aggregate(&v, &ap, [v.aggregate_init(&shape), v.aggregate_init(&shape)]))
                }
            }
            "aggparam_new" => {
                let plen = small(c, "plen") as usize;
                let mk = |last: [bool; 2]| -> IdpfInput {
                    // prefixes differ in their last two bits (or only bit), so the order is decided at the far end
                    let mut b = vec![true; plen];
                    if plen >= 2 { b[plen - 2] = last[0]; }
                    if plen >= 1 { b[plen - 1] = last[1]; }
                    IdpfInput::from_bools(&b)
                };
                let shape = c["shape"].as_str().unwrap();
                let list: Vec<IdpfInput> = match shape {
                    "one" => vec![mk([true, false])],
                    "two_sorted" => vec![mk([true, false]), mk([true, true])],
                    "three_sorted" => vec![mk([false, true]), mk([true, false]), mk([true, true])],
                    "two_unsorted" => vec![mk([true, true]), mk([true, false])],
                    "two_equal" => vec![mk([true, true]), mk([true, true])],
                    "mixed_length" => vec![mk([true, false]), IdpfInput::from_bools(&vec![true; plen + 1])],
                    _ => vec![],
                };
                match Poplar1AggregationParam::try_from_prefixes(list.clone()) {
                    Ok(ap) => {
                        // usable: reports its level and prefixes, round-trips through its encoding with the advertised length
                        let enc = ap.get_encoded().map_err(|e| e.to_string());
                        match enc {
                            Ok(bytes) => {
                                if ap.level() + 1 != plen || ap.prefixes() != &list[..] || ap.encoded_len() != Some(bytes.len()) { return Out::Unusable("level/prefixes/encoded_len".into()); }
                                match Poplar1AggregationParam::get_decoded(&bytes) { Ok(back) if back == ap => Out::Ok, _ => Out::Unusable("round trip".into()) }
                            }
                            Err(e) => Out::Unusable(e),
                        }
                    }
                    Err(_) => Out::Err,
                }
            }
            "aggparam_decode" => {
                let (level, count, extra) = (small(c, "level") as usize, small(c, "count") as usize, c["extra"].as_i64().unwrap());
                let sorted = c["sorted"].as_bool().unwrap();
                let nbytes = (level + 1 + 7) / 8;
                let mut bytes = vec![(level >> 8) as u8, level as u8];
                bytes.extend_from_slice(&(count as u32).to_be_bytes());
                for k in 0..count {
                    // canonical prefixes (padding bits zero) that increase (or decrease) in their first three bits
                    let idx = if sorted { k } else { count - 1 - k };
                    let mut p = vec![0u8; nbytes];
                    let top = (level + 1).min(2);
                    p[0] = ((idx as u8) & ((1 << top) - 1)) << (8 - top);
                    bytes.extend_from_slice(&p);
                }
                if extra > 0 { bytes.push(0); }
                if extra < 0 { bytes.pop(); }
                match Poplar1AggregationParam::get_decoded(&bytes) {
                    Ok(ap) => if ap.level() == level && ap.prefixes().len() == count && ap.get_encoded().ok().as_deref() == Some(&bytes[..]) { Out::Ok } else { Out::Unusable("decoded value".into()) },
                    Err(_) => Out::Err,
                }
            }
            "vinit_poplar1" | "s2m_poplar1" | "vinit_poplar1_level" => {
                let bits = 8usize;
                let v = Poplar1::new_turboshake128(bits);
                let input = IdpfInput::from_bools(&[true, false, true, true, false, false, true, false]);
                let (ps, shares) = v.shard(b"c16", &input, &[1; 16]).unwrap();
                let level = if op == "vinit_poplar1_level" { small(c, "level") as usize } else { 3 };
                let prefix = IdpfInput::from_bools(&(0..=level).map(|i| i % 3 == 0).collect::<Vec<_>>());
                let ap = match Poplar1AggregationParam::try_from_prefixes(vec![prefix]) { Ok(a) => a, Err(_) => return Out::Err };
                match op.as_str() {
                    "vinit_poplar1" => { let id = us(c, "aid_s"); okerr(v.verify_init(&[3; 32], b"c16", id, &ap, &[1; 16], &ps, &shares[id.min(1)])) }
                    "vinit_poplar1_level" => okerr(v.verify_init(&[3; 32], b"c16", 0, &ap, &[1; 16], &ps, &shares[0])),
                    _ => {
                        let vs: Vec<_> = (0..2).map(|j| v.verify_init(&[3; 32], b"c16", j, &ap, &[1; 16], &ps, &shares[j]).unwrap().1).collect();
                        let cnt = small(c, "count") as usize;
                        okerr(v.verifier_shares_to_message(b"c16", &ap, (0..cnt).map(|k| vs[k.min(1)].clone())))
                    }
                }
            }
            "agg_wrong_len" | "unshard_wrong_len" | "truncate_len" | "decode_result_len" => {
                let (want, len) = (small(c, "want") as usize, small(c, "got") as usize);
                let v = Prio3::new_sum_vec(2, 1, want, 2).unwrap();
                let other = Prio3::new_sum_vec(2, 1, len.max(1), 2).unwrap();
                let t = SumVec::<Field128, ParallelSum<Field128, Mul>>::new(1, want, 2).unwrap();
                match op.as_str() {
                    "agg_wrong_len" => {
                        let os = prio::vdaf::OutputShare::<Field128>::from(vec![Field128::one(); len]);
                        okerr(v.aggregate(&(), [os]))
                    }
                    "unshard_wrong_len" => {
                        let a = prio::vdaf::AggregateShare::<Field128>::from(vec![Field128::one(); len]);
                        let _ = other;
                        okerr(v.unshard(&(), [a.clone(), a], 1))
                    }
                    "truncate_len" => okerr(t.truncate(vec![Field128::one(); len])),
                    _ => okerr(t.decode_result(&vec![Field128::one(); len], 1)),
                }
            }
            "wrong_role_share" => {
                let (v, ctx, nonce, key) = count_setup(2);
                let (ps, shares) = v.shard(&ctx, &true, &nonce).unwrap();
                let helper_under_0 = c["id"].as_str().unwrap().contains("helper");
                let r = if helper_under_0 { v.verify_init(&key, &ctx, 0, &(), &nonce, &ps, &shares[1]) } else { v.verify_init(&key, &ctx, 1, &(), &nonce, &ps, &shares[0]) };
                okerr(r)
            }
            "unshard_count" => {
                let v = Prio3::new_sum_vec(2, 1, 3, 2).unwrap();
                let a = prio::vdaf::AggregateShare::<Field128>::from(vec![Field128::one(); 3]);
                okerr(v.unshard(&(), vec![a; small(c, "count") as usize], 1))
            }
            other => panic!("unknown op {other}"),
        }
    })
}

pub fn run(lines: impl Iterator<Item = String>) {
    let out = std::io::stdout();
    for line in lines {
        let c: Value = serde_json::from_str(&line).expect("case");
        let id = c["id"].as_str().unwrap();
        {
            let mut l = out.lock();
            writeln!(l, "START {id}").unwrap();
            l.flush().unwrap();
        }
        let r = exec(&c);
        let (outcome, detail) = match r {
            Ok(Out::Ok) => ("Ok", String::new()),
            Ok(Out::Err) => ("Err", String::new()),
            Ok(Out::Unusable(d)) => ("Unusable", d),
            Err(p) => ("Panic", p),
        };
        let mut l = out.lock();
        writeln!(l, "DONE {}", json!({"id": id, "outcome": outcome, "detail": detail})).unwrap();
        l.flush().unwrap();
    }
}
