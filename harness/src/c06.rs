//! C06: evaluation histories on the real Idpf through recording wrappers around the real caches
//! (public IdpfCache trait); recorded for spec/Idpf_Trace.tla.
use crate::util::*;
use num_bigint::BigUint;
use prio::codec::Encode;
use prio::field::{Field255, Field64, FieldElement, FieldV17};
use prio::idpf::{HashMapCache, Idpf, IdpfCache, IdpfInput, IdpfOutputShare, IdpfValue, NoCache, RingBufferCache};
use prio::vdaf::poplar1::Poplar1IdpfValue;
use prio::vdaf::xof::Seed;
use serde_json::{json, Value};
use std::cell::RefCell;

thread_local! { static LOG: RefCell<Vec<Value>> = const { RefCell::new(Vec::new()) }; }
fn log(v: Value) {
    LOG.with(|l| l.borrow_mut().push(v));
}

/// a cache that forgets: keeps an entry only when a deterministic coin says so, and drops everything now and then
struct Lossy {
    inner: HashMapCache,
    coin: u64,
}
impl IdpfCache for Lossy {
    fn get(&self, input: &bitvec::slice::BitSlice) -> Option<([u8; 16], u8)> {
        self.inner.get(input)
    }
    fn insert(&mut self, input: &bitvec::slice::BitSlice, values: &([u8; 16], u8)) {
        self.coin = self.coin.wrapping_mul(6364136223846793005).wrapping_add(1442695040888963407);
        if (self.coin >> 33) % 5 == 0 {
            self.inner = HashMapCache::new();
        } else if (self.coin >> 33) % 2 == 0 {
            self.inner.insert(input, values);
        }
    }
}
struct Rec<C> {
    inner: C,
    agg: usize,
    name: String,
}
fn key_of(input: &bitvec::slice::BitSlice) -> Vec<u8> {
    input.iter().map(|b| *b as u8).collect()
}
impl<C: IdpfCache> IdpfCache for Rec<C> {
    fn get(&self, input: &bitvec::slice::BitSlice) -> Option<([u8; 16], u8)> {
        let r = self.inner.get(input);
        log(json!({"ev":"cget","agg":self.agg,"cache":self.name,"key":key_of(input),"hit":r.is_some(),
                   "val": r.map(|(s, t)| json!([s.to_vec(), t])).unwrap_or(json!([]))}));
        r
    }
    fn insert(&mut self, input: &bitvec::slice::BitSlice, values: &([u8; 16], u8)) {
        // what the Idpf offers is a true node state: recorded as the ghost state whatever the cache keeps
        log(json!({"ev":"cins","agg":self.agg,"cache":self.name,"key":key_of(input),"val":[values.0.to_vec(), values.1]}));
        self.inner.insert(input, values);
    }
}

fn enc_share<VI: IdpfValue, VL: IdpfValue>(o: &IdpfOutputShare<VI, VL>) -> Vec<u8> {
    match o {
        IdpfOutputShare::Inner(v) => v.get_encoded().unwrap(),
        IdpfOutputShare::Leaf(v) => v.get_encoded().unwrap(),
    }
}

trait Family {
    type VI: IdpfValue<ValueParameter = ()> + Clone;
    type VL: IdpfValue<ValueParameter = ()> + Clone;
    const FINNER: &'static str;
    const FLEAF: &'static str;
    const K: usize;
    const ESIZE_I: usize;
    const ESIZE_L: usize;
    fn vi(b: &[u64]) -> Self::VI;
    fn vl(b: &[u64]) -> Self::VL;
    fn prime_i() -> BigUint;
    fn prime_l() -> BigUint;
}
struct PoplarFam;
impl Family for PoplarFam {
    type VI = Poplar1IdpfValue<Field64>;
    type VL = Poplar1IdpfValue<Field255>;
    const FINNER: &'static str = "Field64";
    const FLEAF: &'static str = "Field255";
    const K: usize = 2;
    const ESIZE_I: usize = 8;
    const ESIZE_L: usize = 32;
    fn vi(b: &[u64]) -> Self::VI {
        Poplar1IdpfValue::new([Field64::from(b[0]), Field64::from(b[1])])
    }
    fn vl(b: &[u64]) -> Self::VL {
        Poplar1IdpfValue::new([Field255::from(b[0]), Field255::from(b[1])])
    }
    fn prime_i() -> BigUint {
        BigUint::from(18446744069414584321u64)
    }
    fn prime_l() -> BigUint {
        (BigUint::from(1u8) << 255) - BigUint::from(19u8)
    }
}
struct TinyFam;
impl Family for TinyFam {
    type VI = FieldV17;
    type VL = FieldV17;
    const FINNER: &'static str = "FieldV17";
    const FLEAF: &'static str = "FieldV17";
    const K: usize = 1;
    const ESIZE_I: usize = 1;
    const ESIZE_L: usize = 1;
    fn vi(b: &[u64]) -> FieldV17 {
        FieldV17::from(b[0] as u32)
    }
    fn vl(b: &[u64]) -> FieldV17 {
        FieldV17::from(b[0] as u32)
    }
    fn prime_i() -> BigUint {
        BigUint::from(17u8)
    }
    fn prime_l() -> BigUint {
        BigUint::from(17u8)
    }
}

fn bits_of(v: &Value) -> Vec<bool> {
    v.as_array().unwrap().iter().map(|b| b.as_u64().unwrap() == 1).collect()
}

/// Builds the same logical input through the different public constructors: `from_bools`, and the `From<BitVec>` /
/// `From<BitBox>` conversions applied to a copy of a sub-slice that does not start at bit 0 of its storage word
/// (`to_bitvec()` keeps the head offset), so that cache keys are derived from unaligned storage.
fn mk_input(bits: &[bool], variant: usize) -> IdpfInput {
    use bitvec::prelude::*;
    if variant % 3 == 0 || bits.is_empty() {
        return IdpfInput::from_bools(bits);
    }
    let h = 1 + (variant / 3) % 7;
    let mut bv: BitVec<usize, Lsb0> = BitVec::new();
    for _ in 0..h { bv.push(false); }
    for b in bits { bv.push(*b); }
    let sl = &bv[h..];
    if variant % 3 == 1 { IdpfInput::from(sl.to_bitvec()) } else { IdpfInput::from(sl.to_bitvec().into_boxed_bitslice()) }
}

fn run_history<Fm: Family>(alpha: &[bool], evals: &[(usize, Vec<bool>, Option<usize>)], cache_kind: &str, rng: &mut Sm, vsel: usize) {
    let bits = alpha.len();
    let idpf = Idpf::<Fm::VI, Fm::VL>::new((), ());
    let betas: Vec<Vec<u64>> = (0..bits).map(|l| (0..Fm::K).map(|i| 1 + ((l * 3 + i * 5) as u64 % 9)).collect()).collect();
    let ctx = rng.bytes(3);
    let nonce = rng.bytes(16);
    let input = mk_input(alpha, vsel / 5);
    let inner: Vec<Fm::VI> = betas[..bits - 1].iter().map(|b| Fm::vi(b)).collect();
    let (ps, keys) = idpf.gen(&input, inner, Fm::vl(&betas[bits - 1]), &ctx, &nonce).expect("gen");
    log(json!({"ev":"begin","bits":bits,"alpha":alpha.iter().map(|b| *b as u8).collect::<Vec<_>>(),"betas":betas,"finner":Fm::FINNER,"fleaf":Fm::FLEAF,"k":Fm::K,"cache_kind":cache_kind}));
    let mut caches: Vec<Box<dyn IdpfCache>> = Vec::new();
    for agg in 0..2 {
        let name = cache_kind.to_string();
        let c: Box<dyn IdpfCache> = match cache_kind {
            "none" => Box::new(Rec { inner: NoCache::new(), agg, name }),
            "hashmap" => Box::new(Rec { inner: HashMapCache::new(), agg, name }),
            "ring1" => Box::new(Rec { inner: RingBufferCache::new(1), agg, name }),
            "ring2" => Box::new(Rec { inner: RingBufferCache::new(2), agg, name }),
            "ring5" => Box::new(Rec { inner: RingBufferCache::new(5), agg, name }),
            "ring0" => Box::new(Rec { inner: RingBufferCache::new(0), agg, name }),
            _ => Box::new(Rec { inner: Lossy { inner: HashMapCache::new(), coin: rng.next() }, agg, name }),
        };
        caches.push(c);
    }
    let keys: [Seed<16>; 2] = keys;
    for (k, (agg, prefix, forced)) in evals.iter().enumerate() {
        // the k-th evaluation of unit `vsel` builds its prefix with constructor variant (vsel + k) mod 3 and head offset 1..7
        let p = mk_input(prefix, forced.unwrap_or(if vsel == 0 { 0 } else { vsel + k + 3 * ((vsel / 3 + k) % 7) }));
        // cache-free reference for both parties (needed for the reconstruction identity)
        for a in 0..2 {
            match guarded(|| idpf.eval(a, &ps, &keys[a], &p, &ctx, &nonce, &mut NoCache::new())) {
                Ok(Ok(o)) => log(json!({"ev":"ref","agg":a,"prefix":prefix.iter().map(|b| *b as u8).collect::<Vec<_>>(),"out":enc_share(&o)})),
                Ok(Err(_)) => log(json!({"ev":"err","agg":a,"prefix":prefix.iter().map(|b| *b as u8).collect::<Vec<_>>()})),
                Err(m) => log(json!({"ev":"panic","msg":m})),
            }
        }
        match guarded(|| idpf.eval(*agg, &ps, &keys[(*agg).min(1)], &p, &ctx, &nonce, caches[(*agg).min(1)].as_mut())) {
            Ok(Ok(o)) => log(json!({"ev":"eval","agg":agg,"prefix":prefix.iter().map(|b| *b as u8).collect::<Vec<_>>(),"ok":true,"out":enc_share(&o)})),
            Ok(Err(_)) => log(json!({"ev":"err","agg":agg,"prefix":prefix.iter().map(|b| *b as u8).collect::<Vec<_>>()})),
            Err(m) => log(json!({"ev":"panic","msg":m})),
        }
        // reconstruction: carries are witnesses, the identity is checked by TLC on the recorded shares
        if !prefix.is_empty() && prefix.len() <= bits {
            let r: Vec<Vec<u8>> = (0..2).map(|a| enc_share(&idpf.eval(a, &ps, &keys[a], &p, &ctx, &nonce, &mut NoCache::new()).unwrap())).collect();
            let (es, pr) = if prefix.len() == bits { (Fm::ESIZE_L, Fm::prime_l()) } else { (Fm::ESIZE_I, Fm::prime_i()) };
            let carry: Vec<u8> = (0..Fm::K).map(|i| {
                let a = BigUint::from_bytes_le(&r[0][i * es..(i + 1) * es]);
                let b = BigUint::from_bytes_le(&r[1][i * es..(i + 1) * es]);
                if a + b >= pr { 1 } else { 0 }
            }).collect();
            log(json!({"ev":"recon","prefix":prefix.iter().map(|b| *b as u8).collect::<Vec<_>>(),"carry":carry}));
        }
    }
}

pub fn record(args: &[String], lines: impl Iterator<Item = String>) {
    // args: <out> <seed> <mode: scripts|deep> [max]
    let path = &args[0];
    let seed: u64 = args[1].parse().unwrap();
    let mode = args[2].as_str();
    let max: usize = args.get(3).map(|s| s.parse().unwrap()).unwrap_or(usize::MAX);
    let mut rng = Sm(seed);
    let kinds = ["hashmap", "ring1", "ring2", "ring5", "lossy", "none", "ring0"];
    let mut units = 0usize;
    if mode == "scripts" {
        for (i, line) in lines.enumerate() {
            if units >= max { break; }
            let v: Value = serde_json::from_str(&line).expect("script");
            let alpha = bits_of(&v["alpha"]);
            let evals: Vec<(usize, Vec<bool>, Option<usize>)> = v["evals"].as_array().unwrap().iter().map(|e| (e[0].as_u64().unwrap() as usize, bits_of(&e[1]), None)).collect();
            let kind = kinds[i % kinds.len()];
            units += 1;
            if i % 2 == 0 { run_history::<PoplarFam>(&alpha, &evals, kind, &mut rng, i / 14); } else { run_history::<TinyFam>(&alpha, &evals, kind, &mut rng, i / 14); }
        }
    } else {
        // deep trees: seeded random histories mixing on-path, sibling and random prefixes of every length
        for (n, bits) in [(0usize, 8usize), (1, 64), (2, 320), (3, 17), (4, 129), (5, 1), (6, 1)].iter() {
            for h in 0..max.max(1) {
                let alpha: Vec<bool> = (0..*bits).map(|_| rng.below(2) == 1).collect();
                let mut evals = Vec::new();
                for _ in 0..12 {
                    let len = match rng.below(6) { 0 => 1, 1 => *bits, 2 => (*bits - 1).max(1), _ => 1 + rng.below(*bits as u64) as usize };
                    let mut p: Vec<bool> = alpha[..len].to_vec();
                    match rng.below(4) { 0 => { let i = rng.below(len as u64) as usize; p[i] = !p[i]; } 1 => { p[len - 1] = !p[len - 1]; } _ => {} }
                    evals.push((rng.below(2) as usize, p, None));
                }
                // error cases: empty prefix, too long, aggregator id 2
                // storage-level near-collisions: x.0^h built from a slice with head offset h, after 0^h.x built aligned
                // (equal raw storage words and equal length, different logical prefixes)
                for hh in 1..=3usize {
                    let n_ = (hh + 1 + rng.below(6) as usize).min(*bits);
                    if n_ <= hh { continue; }
                    let x: Vec<bool> = (0..n_ - hh).map(|i| i == 0 || rng.below(2) == 1).collect();
                    let c: Vec<bool> = std::iter::repeat(false).take(hh).chain(x.iter().copied()).collect();
                    let b: Vec<bool> = x.iter().copied().chain(std::iter::repeat(false).take(hh)).collect();
                    let a = rng.below(2) as usize;
                    evals.push((a, c, Some(0)));
                    evals.push((a, b, Some(1 + 3 * (hh - 1) + (hh % 2))));
                }
                // same-length prefixes that differ in exactly one bit, placed around the storage-word boundaries of long keys
                // (cache keys are compared word-wise: bit len%64 of the first word, bits 63/64/65, the last bits)
                for len in if *bits > 70 { vec![*bits, 70] } else { vec![*bits] } {
                    let a = rng.below(2) as usize;
                    for pos in [len % 64, 10, 63, 64, len - 1] {
                        // the on-path prefix, then its one-bit neighbour: small ring buffers still hold the former's last nodes
                        evals.push((a, alpha[..len].to_vec(), None));
                        if pos < len { let mut p = alpha[..len].to_vec(); p[pos] = !p[pos]; evals.push((a, p, None)); }
                    }
                }
                evals.push((0, vec![], None));
                evals.push((1, vec![true; *bits + 1], None));
                evals.push((2, alpha[..1].to_vec(), None));
                let kind = kinds[(n + h) % kinds.len()];
                units += 1;
                if *bits <= 64 && h % 2 == 1 { run_history::<TinyFam>(&alpha, &evals, kind, &mut rng, n + h); } else { run_history::<PoplarFam>(&alpha, &evals, kind, &mut rng, n + h); }
                // keys longer than one storage word: the same history also through the cache that retains everything
                if *bits > 64 && kind != "hashmap" && h == 0 {
                    units += 1;
                    run_history::<PoplarFam>(&alpha, &evals, "hashmap", &mut rng, 0);
                }
            }
        }
    }
    let out = LOG.with(|l| std::mem::take(&mut *l.borrow_mut()));
    let mut s = String::new();
    for e in &out {
        s.push_str(&e.to_string());
        s.push('\n');
    }
    std::fs::write(path, s).unwrap();
    emit(json!({"t":"summary","evaluations":units,"mismatches":0,"extra":{"events":out.len()}}));
}
