//! C11: (a) replay of sampling scripts through the real Prng (hook H3) and the public IntoFieldVec;
//! (b) execution of XOF scripts on the real XOFs, recorded for spec/C11_Trace.tla.
use crate::util::*;
use prio::codec::Encode;
use prio::field::{Field128, Field255, Field64, FieldElement, FieldPrio2, FieldV17, FieldV193, FieldV40961};
use prio::vdaf::xof::{IntoFieldVec, SeedStreamAes128, SeedStreamTurboShake128, Xof, XofFixedKeyAes128, XofFixedKeyAes128Key, XofHmacSha256Aes128, XofTurboShake128};
use rand_core::{utils::next_word_via_fill, Rng, SeedableRng, TryRng};
use serde_json::{json, Value};
use std::convert::Infallible;

/// A byte source that plays back a script, then zeros (which every field accepts).
pub struct ScriptedRng {
    bytes: Vec<u8>,
    pos: usize,
}
impl ScriptedRng {
    pub fn new(bytes: Vec<u8>) -> Self {
        ScriptedRng { bytes, pos: 0 }
    }
}
impl TryRng for ScriptedRng {
    type Error = Infallible;
    fn try_fill_bytes(&mut self, dest: &mut [u8]) -> Result<(), Infallible> {
        for d in dest.iter_mut() {
            *d = self.bytes.get(self.pos).copied().unwrap_or(0);
            self.pos += 1;
        }
        Ok(())
    }
    fn try_next_u32(&mut self) -> Result<u32, Infallible> {
        next_word_via_fill(self)
    }
    fn try_next_u64(&mut self) -> Result<u64, Infallible> {
        next_word_via_fill(self)
    }
}

fn field_vec(name: &str, rng: ScriptedRng, n: usize) -> Vec<Vec<u8>> {
    fn go<F: FieldElement>(rng: ScriptedRng, n: usize) -> Vec<Vec<u8>> {
        rng.into_field_vec::<F>(n).iter().map(|x| x.get_encoded().unwrap()).collect()
    }
    match name {
        "FieldPrio2" => go::<FieldPrio2>(rng, n),
        "Field64" => go::<Field64>(rng, n),
        "Field128" => go::<Field128>(rng, n),
        "Field255" => go::<Field255>(rng, n),
        "FieldV17" => go::<FieldV17>(rng, n),
        "FieldV193" => go::<FieldV193>(rng, n),
        "FieldV40961" => go::<FieldV40961>(rng, n),
        _ => panic!("field"),
    }
}

pub fn prng(lines: impl Iterator<Item = String>) {
    let mut tl = Tally::new();
    for line in lines {
        let v: Value = serde_json::from_str(&line).expect("script");
        let stream = bytes_of(&v["stream"]);
        let ops: Vec<(String, usize)> = v["ops"].as_array().unwrap().iter().map(|o| (o["field"].as_str().unwrap().to_string(), o["n"].as_u64().unwrap() as usize)).collect();
        let expect: Vec<Vec<u8>> = v["expect"].as_array().unwrap().iter().map(bytes_of).collect();
        tl.evaluations += 1;
        let label = ops.iter().map(|o| o.0.as_str()).collect::<Vec<_>>().join(">");
        let got = guarded(|| prio::verif::prng::run(ScriptedRng { bytes: stream.clone(), pos: 0 }, &ops));
        match &got {
            Ok(Some(g)) if *g == expect => {}
            other => {
                let first = match other { Ok(Some(g)) => g.iter().zip(expect.iter()).position(|(a, b)| a != b), _ => None };
                tl.mismatch(&format!("prng/{label}"), json!({"ops": v["ops"], "first_differing_element": first, "stream_len": stream.len(),
                    "got": format!("{:?}", other.as_ref().map(|o| o.as_ref().map(|g| g.len())))}));
            }
        }
        // the public path (IntoFieldVec) for single-field scripts
        if ops.len() == 1 {
            let got = guarded(|| field_vec(&ops[0].0, ScriptedRng { bytes: stream.clone(), pos: 0 }, ops[0].1));
            if got.as_ref().ok() != Some(&expect) {
                tl.mismatch(&format!("into_field_vec/{label}"), json!({"ops": v["ops"]}));
            }
        }
        tl.sample(json!({"ops": v["ops"], "stream_len": stream.len(), "elements": expect.len()}));
    }
    tl.finish(json!({}));
}

fn read_all<S: Rng>(mut s: S, reads: &[u64]) -> Vec<u8> {
    let mut out = Vec::new();
    for r in reads {
        let mut b = vec![0u8; *r as usize];
        s.fill_bytes(&mut b);
        out.extend(b);
    }
    out
}
/// The same read sequence through the word-sized entry points of the `Rng` interface: a read of 4 bytes is one `next_u32`,
/// a read of 8 bytes one `next_u64` (little endian, as rand_core's fill-based defaults define them), anything else `fill_bytes`.
fn read_all_words<S: Rng>(mut s: S, reads: &[u64]) -> Vec<u8> {
    let mut out = Vec::new();
    for r in reads {
        match *r {
            4 => out.extend(s.next_u32().to_le_bytes()),
            8 => out.extend(s.next_u64().to_le_bytes()),
            n => { let mut b = vec![0u8; n as usize]; s.fill_bytes(&mut b); out.extend(b); }
        }
    }
    out
}

pub fn xof(args: &[String], lines: impl Iterator<Item = String>) {
    let path = &args[0];
    let seed: u64 = args[1].parse().unwrap();
    let mut rng = Sm(seed);
    let mut out: Vec<Value> = Vec::new();
    let s32a: [u8; 32] = rng.bytes(32).try_into().unwrap();
    let s32b: [u8; 32] = rng.bytes(32).try_into().unwrap();
    let s16a: [u8; 16] = rng.bytes(16).try_into().unwrap();
    let s16b: [u8; 16] = rng.bytes(16).try_into().unwrap();
    let mut n = 0u64;
    for line in lines {
        let v: Value = serde_json::from_str(&line).expect("script");
        let dparts: Vec<Vec<u8>> = v["dst_parts"].as_array().unwrap().iter().map(bytes_of).collect();
        let bparts: Vec<Vec<u8>> = v["binder_parts"].as_array().unwrap().iter().map(bytes_of).collect();
        let reads = u64s(&v["reads"]);
        let dref: Vec<&[u8]> = dparts.iter().map(|p| p.as_slice()).collect();
        let bref: Vec<&[u8]> = bparts.iter().map(|p| p.as_slice()).collect();
        let (dst, binder) = (dparts.concat(), bparts.concat());
        n += 1;
        let mut aes: Vec<Value> = Vec::new();
        let mut ev = |family: &str, api: &str, seed: &[u8], o: Vec<u8>, seed_size: usize| {
            out.push(json!({"family": family, "api": api, "seed": seed, "dst": dst, "binder": binder, "reads": reads, "out": o, "seed_size": seed_size,
                            "dst_parts": dparts.len(), "binder_parts": bparts.len()}));
        };
        for s in [&s32a, &s32b] {
            // TurboSHAKE128: incremental, one-shot and derived-seed forms
            let mut x = XofTurboShake128::init(s, &dref);
            for b in &bref { x.update(b); }
            ev("turboshake", "init+update", s, read_all(x.into_seed_stream(), &reads), 32);
            ev("turboshake", "seed_stream", s, read_all(XofTurboShake128::seed_stream(s, &dref, &bref), &reads), 32);
            if reads.iter().any(|r| *r == 4 || *r == 8) { ev("turboshake", "seed_stream/words", s, read_all_words(XofTurboShake128::seed_stream(s, &dref, &bref), &reads), 32); }
            let mut x = XofTurboShake128::init(s, &dref);
            for b in &bref { x.update(b); }
            ev("turboshake", "into_seed", s, x.into_seed().as_ref().to_vec(), 32);
            if dst.is_empty() && binder.is_empty() {
                ev("turboshake", "from_seed", s, read_all(SeedStreamTurboShake128::from_seed(*s), &reads), 32);
            }
            // HMAC-SHA256 + AES128
            let mut x = XofHmacSha256Aes128::init(s, &dref);
            for b in &bref { x.update(b); }
            ev("hmac", "init+update", s, read_all(x.into_seed_stream(), &reads), 32);
            ev("hmac", "seed_stream", s, read_all(XofHmacSha256Aes128::seed_stream(s, &dref, &bref), &reads), 32);
            if reads.iter().any(|r| *r == 4 || *r == 8) { ev("hmac", "seed_stream/words", s, read_all_words(XofHmacSha256Aes128::seed_stream(s, &dref, &bref), &reads), 32); }
            let mut x = XofHmacSha256Aes128::init(s, &dref);
            for b in &bref { x.update(b); }
            ev("hmac", "into_seed", s, x.into_seed().as_ref().to_vec(), 32);
            // raw AES128-CTR stream: a function of (key, iv)
            let (k, iv): ([u8; 16], [u8; 16]) = (s[..16].try_into().unwrap(), s[16..].try_into().unwrap());
            aes.push(json!({"family": "aes128ctr", "api": "new", "seed": s.to_vec(), "dst": [], "binder": [], "reads": reads, "out": read_all(SeedStreamAes128::new(&k, &iv), &reads), "seed_size": 32}));
        }
        for s in [&s16a, &s16b] {
            let mut x = XofFixedKeyAes128::init(s, &dref);
            for b in &bref { x.update(b); }
            ev("fixedkey", "init+update", s, read_all(x.into_seed_stream(), &reads), 16);
            ev("fixedkey", "seed_stream", s, read_all(XofFixedKeyAes128::seed_stream(s, &dref, &bref), &reads), 16);
            if reads.iter().any(|r| *r == 4 || *r == 8) { ev("fixedkey", "seed_stream/words", s, read_all_words(XofFixedKeyAes128::seed_stream(s, &dref, &bref), &reads), 16); }
            ev("fixedkey", "key.with_seed", s, read_all(XofFixedKeyAes128Key::new(&dref, &binder).with_seed(s), &reads), 16);
            let mut x = XofFixedKeyAes128::init(s, &dref);
            for b in &bref { x.update(b); }
            ev("fixedkey", "into_seed", s, x.into_seed().as_ref().to_vec(), 16);
        }
        out.extend(aes);
    }
    let mut s = String::new();
    for e in &out {
        s.push_str(&e.to_string());
        s.push('\n');
    }
    std::fs::write(path, s).unwrap();
    emit(json!({"t":"summary","evaluations":n,"mismatches":0,"extra":{"events":out.len()}}));
}
