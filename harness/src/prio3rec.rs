//! Recording of real Prio3 executions (tiny-field instantiations, RecordingXof) as ndjson traces for
//! spec/Prio3_Trace.tla. Every message passes through its wire encoding; every API call is one
//! event with the bytes it consumed and produced. Scenario families: honest, tamper (every byte
//! position of every message), raw (invalid encoded inputs with honest proofs), mismatch (context /
//! nonce / key / aggregator id), count (dropped / duplicated verifier shares), pair (C17).
use prio::vdaf::Vdaf;
use crate::circuits::*;
use crate::recxof::*;
use crate::util::*;
use crate::{with_circuit, with_field};
use prio::codec::{Encode, ParameterizedDecode};
use prio::flp::{Flp, FlpError, Gadget, Type};
use prio::vdaf::prio3::{Prio3, Prio3InputShare, Prio3PublicShare, Prio3VerifierMessage, Prio3VerifierShare, Prio3VerifyState};
use prio::vdaf::test_utils::TestVectorClient;
use prio::vdaf::{Aggregatable, Aggregator, Collector, OutputShare, VerifyTransition};
use serde_json::{json, Value};

/// `T` with the identity as measurement encoding: lets a (malicious) client shard an arbitrary
/// vector with an honestly computed proof, through the genuine sharding code.
#[derive(Debug, Clone, PartialEq, Eq)]
pub struct RawInput<T>(pub T);
impl<T: Type> Flp for RawInput<T> {
    type Field = T::Field;
    fn gadget(&self) -> Vec<Box<dyn Gadget<T::Field>>> {
        self.0.gadget()
    }
    fn num_gadgets(&self) -> usize {
        self.0.num_gadgets()
    }
    fn valid(&self, g: &mut Vec<Box<dyn Gadget<T::Field>>>, input: &[T::Field], jr: &[T::Field], n: usize) -> Result<Vec<T::Field>, FlpError> {
        self.0.valid(g, input, jr, n)
    }
    fn input_len(&self) -> usize {
        self.0.input_len()
    }
    fn proof_len(&self) -> usize {
        self.0.proof_len()
    }
    fn verifier_len(&self) -> usize {
        self.0.verifier_len()
    }
    fn joint_rand_len(&self) -> usize {
        self.0.joint_rand_len()
    }
    fn eval_output_len(&self) -> usize {
        self.0.eval_output_len()
    }
    fn prove_rand_len(&self) -> usize {
        self.0.prove_rand_len()
    }
}
impl<T: Type> Type for RawInput<T> {
    type Measurement = Vec<T::Field>;
    type AggregateResult = T::AggregateResult;
    fn encode_measurement(&self, m: &Vec<T::Field>) -> Result<Vec<T::Field>, FlpError> {
        Ok(m.clone())
    }
    fn truncate(&self, input: Vec<T::Field>) -> Result<Vec<T::Field>, FlpError> {
        self.0.truncate(input)
    }
    fn decode_result(&self, data: &[T::Field], n: usize) -> Result<T::AggregateResult, FlpError> {
        self.0.decode_result(data, n)
    }
    fn output_len(&self) -> usize {
        self.0.output_len()
    }
}

const ALGO: u32 = 0x0102_0304;
type V<T> = Prio3<T, RecXof, 32>;

/// per-aggregator view of the public inputs (for the mismatch family)
#[derive(Clone)]
struct View {
    key: [u8; 32],
    ctx: Vec<u8>,
    nonce: [u8; 16],
    /// identifier passed to verify_init / used for state decoding
    id: usize,
    /// identifier under which the input share bytes are decoded (its role)
    dec_id: usize,
}
#[derive(Clone, Copy, PartialEq)]
enum Tamper {
    None,
    VShare(usize, usize, u8), // (aggregator, byte position, xor)
    Msg(usize, u8),
    Drop(usize),
    Dup(usize),
}

fn flush(out: &mut Vec<Value>) {
    out.extend(take_log());
}

/// Runs verification of one report from its wire bytes; logs every step. Returns output shares if
/// every aggregator finished.
fn verify_report<T: Type>(vdaf: &V<T>, views: &[View], pubb: &[u8], shares: &[Vec<u8>], tamper: Tamper, out: &mut Vec<Value>) -> Option<Vec<Vec<u8>>> {
    verify_report_alt(vdaf, None, views, pubb, shares, tamper, out)
}

/// `alt = Some((instance, who))`: aggregator `who` (every aggregator if `who == n`) runs a different Prio3 instance
/// (same circuit, other algorithm identifier); its events carry that identifier.
fn verify_report_alt<T: Type>(vdaf0: &V<T>, alt: Option<(&V<T>, usize)>, views: &[View], pubb: &[u8], shares: &[Vec<u8>], tamper: Tamper, out: &mut Vec<Value>) -> Option<Vec<Vec<u8>>> {
    let n = views.len();
    let inst = |k: usize| -> &V<T> { match alt { Some((a, who)) if who == k || who == n => a, _ => vdaf0 } };
    let tag = |k: usize, mut e: Value| -> Value { if let Some((a, who)) = alt { if who == k || who == n { e["algo"] = json!(a.algorithm_id()); } } e };
    let vdaf = vdaf0;
    let mut states: Vec<Vec<u8>> = Vec::new();
    let mut vshares: Vec<Vec<u8>> = Vec::new();
    let mut all = true;
    let public = match Prio3PublicShare::get_decoded_with_param(vdaf, pubb) {
        Ok(p) => Some(p),
        Err(_) => {
            out.push(json!({"ev":"decode_fail","what":"pub","j":0,"bytes":pubb}));
            None
        }
    };
    let public = public?;
    for (k, v) in views.iter().enumerate() {
        let share = match Prio3InputShare::get_decoded_with_param(&(vdaf, v.dec_id), &shares[k]) {
            Ok(s) => s,
            Err(_) => {
                out.push(json!({"ev":"decode_fail","what":"share","j":v.dec_id,"bytes":shares[k]}));
                all = false;
                continue;
            }
        };
        let r = guarded(|| inst(k).verify_init(&v.key, &v.ctx, v.id, &(), &v.nonce, &public, &share));
        flush(out);
        match r {
            Ok(Ok((st, vs))) => {
                let (stb, vsb) = (st.get_encoded().unwrap(), vs.get_encoded().unwrap());
                out.push(tag(k, json!({"ev":"vinit","key":v.key.to_vec(),"ctx":v.ctx,"j":v.id,"dj":v.dec_id,"nonce":v.nonce.to_vec(),"pub":pubb,"share":shares[k],
                                "ok":true,"vshare":vsb,"state":stb,"vs_len":vs.encoded_len(),"st_len":st.encoded_len()})));
                states.push(stb);
                vshares.push(vsb);
            }
            Ok(Err(_)) => {
                out.push(tag(k, json!({"ev":"vinit","key":v.key.to_vec(),"ctx":v.ctx,"j":v.id,"dj":v.dec_id,"nonce":v.nonce.to_vec(),"pub":pubb,"share":shares[k],
                                "ok":false,"vshare":[],"state":[]})));
                all = false;
            }
            Err(p) => {
                out.push(json!({"ev":"panic","where":"verify_init","msg":p}));
                all = false;
            }
        }
    }
    if !all {
        return None;
    }
    // the verifier shares travel to the combiner
    let mut wire: Vec<Vec<u8>> = vshares.clone();
    match tamper {
        Tamper::VShare(a, pos, x) => {
            let l = wire[a].len();
            if l > 0 { wire[a][pos % l] ^= x; }
        }
        Tamper::Drop(a) => { wire.remove(a % n); }
        Tamper::Dup(a) => { let d = wire[a % n].clone(); wire.push(d); }
        _ => {}
    }
    let st0 = Prio3VerifyState::get_decoded_with_param(&(vdaf, views[0].id), &states[0]).ok()?;
    let mut decoded = Vec::new();
    for w in &wire {
        match Prio3VerifierShare::get_decoded_with_param(&st0, w) {
            Ok(d) => decoded.push(d),
            Err(_) => {
                out.push(json!({"ev":"decode_fail","what":"vshare","j":0,"bytes":w}));
                return None;
            }
        }
    }
    let r = guarded(|| inst(0).verifier_shares_to_message(&views[0].ctx, &(), decoded));
    flush(out);
    let msg = match r {
        Ok(Ok(m)) => {
            let mb = m.get_encoded().unwrap();
            out.push(tag(0, json!({"ev":"s2m","ctx":views[0].ctx,"vshares":wire,"ok":true,"msg":mb,"msg_len":m.encoded_len()})));
            mb
        }
        Ok(Err(_)) => {
            out.push(tag(0, json!({"ev":"s2m","ctx":views[0].ctx,"vshares":wire,"ok":false,"msg":[]})));
            return None;
        }
        Err(p) => {
            out.push(json!({"ev":"panic","where":"verifier_shares_to_message","msg":p}));
            return None;
        }
    };
    let mut outs = Vec::new();
    let mut all = true;
    for (k, v) in views.iter().enumerate() {
        let mut mb = msg.clone();
        if let Tamper::Msg(pos, x) = tamper {
            if !mb.is_empty() { let l = mb.len(); mb[pos % l] ^= x; }
        }
        let st = match Prio3VerifyState::get_decoded_with_param(&(vdaf, v.id), &states[k]) {
            Ok(s) => s,
            Err(_) => {
                out.push(json!({"ev":"decode_fail","what":"state","j":v.id,"bytes":states[k]}));
                all = false;
                continue;
            }
        };
        let m = match Prio3VerifierMessage::get_decoded_with_param(&st, &mb) {
            Ok(m) => m,
            Err(_) => {
                out.push(json!({"ev":"decode_fail","what":"msg","j":v.id,"bytes":mb}));
                all = false;
                continue;
            }
        };
        let r = guarded(|| inst(k).verify_next(&v.ctx, st, m));
        flush(out);
        match r {
            Ok(Ok(VerifyTransition::Finish(o))) => {
                let ob = o.get_encoded().unwrap();
                out.push(tag(k, json!({"ev":"vnext","ctx":v.ctx,"j":v.id,"state":states[k],"msg":mb,"ok":true,"out":ob,"out_len":o.encoded_len()})));
                outs.push(ob);
            }
            Ok(Ok(_)) => {
                out.push(json!({"ev":"panic","where":"verify_next","msg":"Continue from a one-round VDAF"}));
                all = false;
            }
            Ok(Err(_)) => {
                out.push(tag(k, json!({"ev":"vnext","ctx":v.ctx,"j":v.id,"state":states[k],"msg":mb,"ok":false,"out":[]})));
                all = false;
            }
            Err(p) => {
                out.push(json!({"ev":"panic","where":"verify_next","msg":p}));
                all = false;
            }
        }
    }
    if all { Some(outs) } else { None }
}

struct Gen {
    rng: Sm,
}
impl Gen {
    fn arr<const N: usize>(&mut self) -> [u8; N] {
        let mut a = [0u8; N];
        for b in a.iter_mut() { *b = self.rng.next() as u8; }
        a
    }
    fn views(&mut self, n: usize) -> Vec<View> {
        let key = self.arr::<32>();
        let nonce = self.arr::<16>();
        // mostly short contexts; one unit in seven uses a context of 260-299 bytes (mismatch units alter its last byte)
        let cl = if self.rng.below(7) == 0 { 260 + self.rng.below(40) as usize } else { self.rng.below(4) as usize };
        let ctx = self.rng.bytes(cl);
        (0..n).map(|id| View { key, ctx: ctx.clone(), nonce, id, dec_id: id }).collect()
    }
}

fn begin<T: Type>(p: u64, c: &Value, n: u8, np: u8, out: &mut Vec<Value>) {
    out.push(json!({"ev":"begin","p":p,"c":c,"nagg":n,"np":np,"algo":ALGO,"seed":32}));
}

fn shard_unit<T: Type + FromSpec>(vdaf: &V<T>, views: &[View], m: &Value, g: &mut Gen, out: &mut Vec<Value>) -> Option<(Vec<u8>, Vec<Vec<u8>>)>
{
    let n = views.len();
    let rl = if vdaf_has_jr(vdaf) { 2 * n * 32 } else { n * 32 };
    let rand = g.rng.bytes(rl);
    let meas = T::meas(m);
    let r = guarded(|| vdaf.shard_with_random(&views[0].ctx, &meas, &views[0].nonce, &rand));
    flush(out);
    match r {
        Ok(Ok((ps, shares))) => {
            let pb = ps.get_encoded().unwrap();
            let sb: Vec<Vec<u8>> = shares.iter().map(|s| s.get_encoded().unwrap()).collect();
            out.push(json!({"ev":"shard","ctx":views[0].ctx,"m":m,"nonce":views[0].nonce.to_vec(),"rand":rand,"ok":true,"pub":pb,"shares":sb,
                            "pub_len":ps.encoded_len(),"share_lens":shares.iter().map(|s| s.encoded_len()).collect::<Vec<_>>()}));
            Some((pb, sb))
        }
        other => {
            out.push(json!({"ev":"shard","ctx":views[0].ctx,"m":m,"nonce":views[0].nonce.to_vec(),"rand":rand,"ok":false,"pub":[],"shares":[],"note":format!("{:?}", other.map(|r| r.map(|_| ())))}));
            None
        }
    }
}
fn vdaf_has_jr<T: Type>(v: &V<T>) -> bool {
    v.verifier_len() > 0 && jr_len(v) > 0
}
fn jr_len<T: Type>(v: &V<T>) -> usize {
    // joint_rand_len is not exposed by Prio3; the public share is non-empty exactly when it is > 0.
    // Determine it from a probe sharding is overkill: the FLP type is ours, so ask it.
    v.typ_joint_rand_len()
}
trait TypJr {
    fn typ_joint_rand_len(&self) -> usize;
}
thread_local! { static JR_LEN: std::cell::Cell<usize> = const { std::cell::Cell::new(0) }; }
impl<T: Type> TypJr for V<T> {
    fn typ_joint_rand_len(&self) -> usize {
        JR_LEN.with(|c| c.get())
    }
}

/// All scenario families for one (circuit, measurement) line.
fn unit<F: TinyField, T: Type<Field = F> + FromSpec>(t: &T, p: u64, c: &Value, m: &Value, family: &str, g: &mut Gen, out: &mut Vec<Value>, idx: u64) {
    JR_LEN.with(|x| x.set(t.joint_rand_len()));
    let nagg: u8 = match family { "honest" => [2, 3, 4, 2, 5][(idx % 5) as usize], "wide" => [128, 254, 17, 129][(idx % 4) as usize], "pair" => [2, 3, 5, 8][(idx % 4) as usize], _ => [2, 3][(idx % 2) as usize] };
    let np: u8 = if family == "wide" { 1 } else if family == "proofs" { [4, 255, 17, 128][(idx % 4) as usize] } else { [1, 1, 2, 1, 3][((idx / 2) % 5) as usize] };
    let family = if family == "wide" || family == "proofs" { "honest" } else { family };
    let vdaf: V<T> = Prio3::new(nagg, np, ALGO, t.clone()).unwrap();
    let n = nagg as usize;
    match family {
        "honest" => {
            begin::<T>(p, c, nagg, np, out);
            let views = g.views(n);
            if let Some((pb, sb)) = shard_unit(&vdaf, &views, m, g, out) {
                if let Some(outs) = verify_report(&vdaf, &views, &pb, &sb, Tamper::None, out) {
                    out.push(json!({"ev":"honest","m":m,"outs":outs}));
                }
            }
        }
        "batch" => {
            // a batch of reports with this measurement and two variations of it is aggregated and unsharded
            begin::<T>(p, c, nagg, np, out);
            let mut per_agg: Vec<Vec<Vec<u8>>> = vec![Vec::new(); n];
            let mut ms = Vec::new();
            for _ in 0..(1 + idx % 3) {
                let views = g.views(n);
                if let Some((pb, sb)) = shard_unit(&vdaf, &views, m, g, out) {
                    if let Some(outs) = verify_report(&vdaf, &views, &pb, &sb, Tamper::None, out) {
                        for (j, o) in outs.into_iter().enumerate() { per_agg[j].push(o); }
                        ms.push(m.clone());
                    }
                }
            }
            if ms.is_empty() { return; }
            let mut aggs = Vec::new();
            let mut agg_objs = Vec::new();
            for j in 0..n {
                let shares: Vec<OutputShare<F>> = per_agg[j].iter().map(|b| OutputShare::get_decoded_with_param(&(&vdaf, &()), b).unwrap()).collect();
                let a = vdaf.aggregate(&(), shares).unwrap();
                let ab = a.get_encoded().unwrap();
                out.push(json!({"ev":"agg","outs":per_agg[j],"agg":ab,"agg_len":a.encoded_len()}));
                aggs.push(ab);
                agg_objs.push(a);
            }
            let res = vdaf.unshard(&(), agg_objs, ms.len()).unwrap();
            let r = T::result(&res);
            // unshard's result is the field sum converted to integers
            out.push(json!({"ev":"unshard","aggs":aggs,"result":r}));
            out.push(json!({"ev":"batch","ms":ms,"result":r}));
        }
        "tamper" => {
            // every byte position of every message, one position per unit, honest sharding
            let views = g.views(n);
            begin::<T>(p, c, nagg, np, out);
            let Some((pb, sb)) = shard_unit(&vdaf, &views, m, g, out) else { return };
            let x = 1u8 << (idx % 8);
            // public share bytes
            let mut positions: Vec<(u8, usize, usize)> = Vec::new();
            for i in 0..pb.len() { positions.push((0, 0, i)); }
            for (j, s) in sb.iter().enumerate() { for i in 0..s.len() { positions.push((1, j, i)); } }
            // thin out long messages: all positions of seeds/first and last elements, a stride inside
            let stride = (positions.len() / 96).max(1);
            for (k, (stage, j, i)) in positions.iter().enumerate() {
                if k % stride != (idx as usize) % stride { continue; }
                let mut pb2 = pb.clone();
                let mut sb2 = sb.clone();
                if *stage == 0 { pb2[*i] ^= x; } else { sb2[*j][*i] ^= x; }
                verify_report(&vdaf, &views, &pb2, &sb2, Tamper::None, out);
            }
            // verifier shares and the verifier message
            let vs_len = 64usize;
            for a in 0..n {
                for pos in (0..vs_len).step_by(3) {
                    verify_report(&vdaf, &views, &pb, &sb, Tamper::VShare(a, pos + (idx as usize % 3), x), out);
                }
            }
            for pos in 0..32 {
                verify_report(&vdaf, &views, &pb, &sb, Tamper::Msg(pos, x), out);
            }
            for a in 0..n {
                verify_report(&vdaf, &views, &pb, &sb, Tamper::Drop(a), out);
                verify_report(&vdaf, &views, &pb, &sb, Tamper::Dup(a), out);
            }
            // multiple alterations: two messages altered at once (share + share, share + public share, share + verifier share)
            for k in 0..6usize {
                let mut pb2 = pb.clone();
                let mut sb2 = sb.clone();
                let (a, b) = (k % n, (k + 1) % n);
                let ia = (idx as usize * 7 + k * 13) % sb2[a].len();
                sb2[a][ia] ^= x;
                let mut t = Tamper::None;
                match k % 3 {
                    0 => { let ib = (idx as usize * 5 + k * 11) % sb2[b].len(); sb2[b][ib] ^= x.rotate_left(1); }
                    1 => { if !pb2.is_empty() { let i = (idx as usize + k * 3) % pb2.len(); pb2[i] ^= x; } else { let ib = (k * 17) % sb2[b].len(); sb2[b][ib] ^= 0x80; } }
                    _ => { t = Tamper::VShare(b, k * 5, x); }
                }
                verify_report(&vdaf, &views, &pb2, &sb2, t, out);
            }
        }
        "mismatch" => {
            let views = g.views(n);
            begin::<T>(p, c, nagg, np, out);
            let Some((pb, sb)) = shard_unit(&vdaf, &views, m, g, out) else { return };
            // single mismatches at one aggregator, at all aggregators, and pairs
            let alt_key = g.arr::<32>();
            let alt_nonce = g.arr::<16>();
            let mut alt_ctx = views[0].ctx.clone();
            alt_ctx.push(0x5a);
            for who in 0..=n {
                for what in 0..6 {
                    let mut vs = views.clone();
                    for (k, v) in vs.iter_mut().enumerate() {
                        if who < n && k != who { continue; }
                        match what {
                            0 => v.ctx = alt_ctx.clone(),
                            1 => v.nonce = alt_nonce,
                            2 => v.key = alt_key,
                            3 => { v.ctx = alt_ctx.clone(); v.nonce = alt_nonce; }
                            4 => { v.key = alt_key; v.nonce = alt_nonce; }
                            _ => {}
                        }
                    }
                    let mut sb2 = sb.clone();
                    if what == 5 {
                        // role mismatch: aggregator `who` processes under a neighbour's identifier / share
                        if who >= n { continue; }
                        let other = (who + 1) % n;
                        vs[who].id = other;
                        vs[who].dec_id = other;
                        sb2[who] = sb[other].clone();
                    }
                    verify_report(&vdaf, &vs, &pb, &sb2, Tamper::None, out);
                }
            }
            // in-memory role mismatch: the share object keeps its own role (decoded under its own
            // identifier) but is processed under another aggregator's identifier
            for who in 0..n {
                for other in 0..n {
                    if other == who { continue; }
                    let mut vs = views.clone();
                    vs[who].id = other;
                    verify_report(&vdaf, &vs, &pb, &sb, Tamper::None, out);
                }
            }
            // algorithm identifier mismatch: one aggregator / every aggregator runs an instance with another identifier
            let other: V<T> = Prio3::new(nagg, np, ALGO + 1, t.clone()).unwrap();
            for who in 0..=n {
                verify_report_alt(&vdaf, Some((&other, who)), &views, &pb, &sb, Tamper::None, out);
            }
            // out-of-range aggregator id
            let mut vs = views.clone();
            vs[n - 1].id = n;
            vs[n - 1].dec_id = n;
            verify_report(&vdaf, &vs, &pb, &sb, Tamper::None, out);
        }
        "pair" => {
            // C17: the caller passes {"m1":..,"m2":..} as `m`
            let views = g.views(n);
            begin::<T>(p, c, nagg, np, out);
            let rl = if t.joint_rand_len() > 0 { 2 * n * 32 } else { n * 32 };
            let rand = g.rng.bytes(rl);
            let mut res = Vec::new();
            for mm in [&m["m1"], &m["m2"]] {
                let meas = T::meas(mm);
                let r = guarded(|| vdaf.shard_with_random(&views[0].ctx, &meas, &views[0].nonce, &rand));
                flush(out);
                if let Ok(Ok((ps, shares))) = r {
                    let pb = ps.get_encoded().unwrap();
                    let sb: Vec<Vec<u8>> = shares.iter().map(|s| s.get_encoded().unwrap()).collect();
                    out.push(json!({"ev":"shard","ctx":views[0].ctx,"m":mm,"nonce":views[0].nonce.to_vec(),"rand":rand,"ok":true,"pub":pb,"shares":sb}));
                    res.push((pb, sb));
                }
            }
            if res.len() == 2 {
                out.push(json!({"ev":"pair","m1":m["m1"],"m2":m["m2"],"pub1":res[0].0,"pub2":res[1].0,"shares1":res[0].1,"shares2":res[1].1}));
            }
        }
        _ => panic!("family"),
    }
}

/// raw family: an invalid (or valid) encoded vector sharded by the genuine code with an honest proof
fn raw_unit<F: TinyField, T: Type<Field = F> + FromSpec>(t: &T, p: u64, c: &Value, raw: &Value, g: &mut Gen, out: &mut Vec<Value>, idx: u64) {
    JR_LEN.with(|x| x.set(t.joint_rand_len()));
    let nagg: u8 = [2, 3][(idx % 2) as usize];
    let np: u8 = [1, 2][((idx / 2) % 2) as usize];
    let n = nagg as usize;
    let vdaf: V<T> = Prio3::new(nagg, np, ALGO, t.clone()).unwrap();
    let client: V<RawInput<T>> = Prio3::new(nagg, np, ALGO, RawInput(t.clone())).unwrap();
    begin::<T>(p, c, nagg, np, out);
    let views = g.views(n);
    let rl = if t.joint_rand_len() > 0 { 2 * n * 32 } else { n * 32 };
    let rand = g.rng.bytes(rl);
    let v: Vec<F> = fvec(raw);
    let r = guarded(|| client.shard_with_random(&views[0].ctx, &v, &views[0].nonce, &rand));
    flush(out);
    if let Ok(Ok((ps, shares))) = r {
        let pb = ps.get_encoded().unwrap();
        let sb: Vec<Vec<u8>> = shares.iter().map(|s| s.get_encoded().unwrap()).collect();
        out.push(json!({"ev":"shard","ctx":views[0].ctx,"raw":raw,"nonce":views[0].nonce.to_vec(),"rand":rand,"ok":true,"pub":pb,"shares":sb}));
        // several verification keys: the verdict depends on the query point
        for _ in 0..3 {
            let key = g.arr::<32>();
            let vs: Vec<View> = views.iter().map(|v| View { key, ..v.clone() }).collect();
            verify_report(&vdaf, &vs, &pb, &sb, Tamper::None, out);
        }
    }
}

pub fn record(args: &[String], lines: impl Iterator<Item = String>) {
    // args: <family> <seed> <out.ndjson> [max_units]
    let family = args[0].as_str();
    let seed: u64 = args[1].parse().unwrap();
    let path = &args[2];
    let max_units: u64 = args.get(3).map(|s| s.parse().unwrap()).unwrap_or(u64::MAX);
    let mut g = Gen { rng: Sm(seed) };
    let mut out: Vec<Value> = Vec::new();
    let mut idx = 0u64;
    let mut units = 0u64;
    let mut seen = std::collections::HashSet::new();
    let mut prev: std::collections::HashMap<String, Value> = Default::default();
    for line in lines {
        if units >= max_units { break; }
        let v: Value = serde_json::from_str(&line).expect("scenario line");
        let p = v["p"].as_u64().unwrap();
        idx += 1;
        match (family, v["t"].as_str().unwrap()) {
            ("raw", "run") => {
                let key = format!("{}{}", v["c"], v["inp"]);
                if !seen.insert(key) { continue; }
                units += 1;
                with_field!(p, F, with_circuit!(F, &v["c"], t, raw_unit::<F, _>(&t, p, &v["c"], &v["inp"], &mut g, &mut out, idx)));
            }
            ("raw", _) => {}
            ("pair", "enc") => {
                let ck = v["c"].to_string();
                if let Some(m1) = prev.insert(ck, v["m"].clone()) {
                    if m1 != v["m"] {
                        units += 1;
                        let mm = json!({"m1": m1, "m2": v["m"]});
                        with_field!(p, F, with_circuit!(F, &v["c"], t, unit::<F, _>(&t, p, &v["c"], &mm, family, &mut g, &mut out, idx)));
                    }
                }
            }
            (_, "enc") => {
                units += 1;
                with_field!(p, F, with_circuit!(F, &v["c"], t, unit::<F, _>(&t, p, &v["c"], &v["m"], family, &mut g, &mut out, idx)));
            }
            _ => {}
        }
    }
    let mut s = String::new();
    for e in &out {
        s.push_str(&e.to_string());
        s.push('\n');
    }
    std::fs::write(path, s).unwrap();
    let panics = out.iter().filter(|e| e["ev"] == "panic").count();
    emit(json!({"t":"summary","evaluations":units,"mismatches":0,"extra":{"events":out.len(),"panics":panics}}));
}
