//! Recording of real Poplar1 executions (Field64/Field255, AES-based IDPF, RecordingXof for the
//! VDAF-level derivations) as ndjson traces for spec/Poplar1_Trace.tla. Families: honest batches
//! with admissible parameter sequences and heavy hitters (C03), pairs (C17), variant mismatches and
//! single-bit tampering of every message (C04), deep trees and high levels.
use crate::recxof::*;
use crate::util::*;
use num_bigint::BigUint;
use prio::codec::{Encode, ParameterizedDecode};
use prio::idpf::IdpfInput;
use prio::vdaf::poplar1::{Poplar1, Poplar1AggregationParam, Poplar1FieldVec, Poplar1InputShare, Poplar1PublicShare, Poplar1VerifierMessage, Poplar1VerifierState};
use prio::vdaf::test_utils::TestVectorClient;
use prio::vdaf::{Aggregator, Collector, VerifyTransition};
use serde_json::{json, Value};

type V = Poplar1<RecXof, 32>;

fn flush(out: &mut Vec<Value>) {
    out.extend(take_log());
}
fn bits_json(p: &IdpfInput) -> Vec<u8> {
    p.iter().map(|b| b as u8).collect()
}
fn p_of(leaf: bool) -> BigUint {
    if leaf { (BigUint::from(1u8) << 255) - BigUint::from(19u8) } else { BigUint::from(18446744069414584321u64) }
}
fn els(b: &[u8], leaf: bool) -> Vec<BigUint> {
    b.chunks(if leaf { 32 } else { 8 }).map(BigUint::from_bytes_le).collect()
}

struct Report {
    input: IdpfInput,
    nonce: [u8; 16],
    pubb: Vec<u8>,
    shares: Vec<Vec<u8>>,
}

fn shard(v: &V, ctx: &[u8], input: &IdpfInput, rng: &mut Sm, out: &mut Vec<Value>, fixed: Option<(&[u8; 16], &[u8])>) -> Option<Report> {
    let nonce: [u8; 16] = fixed.map(|f| *f.0).unwrap_or_else(|| rng.bytes(16).try_into().unwrap());
    let rand: Vec<u8> = fixed.map(|f| f.1.to_vec()).unwrap_or_else(|| rng.bytes(32 + 96));
    let r = guarded(|| v.shard_with_random(ctx, input, &nonce, &rand));
    flush(out);
    let idpf_rand = vec![rand[..16].to_vec(), rand[16..32].to_vec()];
    let seeds = vec![rand[32..64].to_vec(), rand[64..96].to_vec(), rand[96..128].to_vec()];
    match r {
        Ok(Ok((ps, shares))) => {
            let pubb = ps.get_encoded().unwrap();
            let sb: Vec<Vec<u8>> = shares.iter().map(|s| s.get_encoded().unwrap()).collect();
            out.push(json!({"ev":"shard","ctx":ctx,"input":bits_json(input),"nonce":nonce.to_vec(),"idpf_rand":idpf_rand,"rand":seeds,"ok":true,"pub":pubb,"shares":sb,
                            "pub_len":ps.encoded_len(),"share_lens":shares.iter().map(|s| s.encoded_len()).collect::<Vec<_>>()}));
            Some(Report { input: input.clone(), nonce, pubb, shares: sb })
        }
        Ok(Err(_)) => {
            out.push(json!({"ev":"shard","ctx":ctx,"input":bits_json(input),"nonce":nonce.to_vec(),"idpf_rand":idpf_rand,"rand":seeds,"ok":false,"pub":[],"shares":[]}));
            None
        }
        Err(p) => {
            out.push(json!({"ev":"panic","where":"shard","msg":p}));
            None
        }
    }
}

#[derive(Clone, Copy, PartialEq)]
enum Tamper {
    None,
    VShare(usize, usize, usize, u8), // round, aggregator, position, xor
    Msg(usize, usize, u8),           // round, position, xor
    MsgSub(usize, u8),               // round, substitution: 0 = empty message, 1 = first element only, 2 = first two, 3 = the round-one message again
}

/// Verifies one report for one aggregation parameter from its wire bytes. Returns the encoded output shares.
fn verify(v: &V, bits: usize, ctx: &[u8], key: &[u8; 32], rep_pub: &[u8], rep_shares: &[Vec<u8>], nonce: &[u8; 16], ap: &Poplar1AggregationParam, honest: bool, tamper: Tamper, out: &mut Vec<Value>) -> Option<Vec<Vec<u8>>> {
    let leaf = ap.level() == bits - 1;
    let public = match Poplar1PublicShare::get_decoded_with_param(v, rep_pub) { Ok(p) => p, Err(_) => { out.push(json!({"ev":"decode_fail","what":"pub","bytes":rep_pub,"leaf":leaf,"round":0})); return None; } };
    let mut states = Vec::new();
    let mut vshares = Vec::new();
    for j in 0..2usize {
        let share = match Poplar1InputShare::<32>::get_decoded_with_param(&(v, j), &rep_shares[j]) { Ok(s) => s, Err(_) => { out.push(json!({"ev":"decode_fail","what":"share","j":j,"bytes":rep_shares[j],"leaf":leaf,"round":0})); return None; } };
        let r = guarded(|| v.verify_init(key, ctx, j, ap, nonce, &public, &share));
        flush(out);
        match r {
            Ok(Ok((st, vs))) => {
                let (sb, vb) = (st.get_encoded().unwrap(), vs.get_encoded().unwrap());
                out.push(json!({"ev":"vinit","key":key.to_vec(),"ctx":ctx,"j":j,"level":ap.level(),"nprefixes":ap.prefixes().len(),"nonce":nonce.to_vec(),"honest":honest,
                                "ok":true,"state":sb,"vshare":vb,"share":rep_shares[j],"st_len":st.encoded_len(),"vs_len":vs.encoded_len()}));
                states.push(sb);
                vshares.push(vb);
            }
            Ok(Err(e)) => {
                out.push(json!({"ev":"vinit","key":key.to_vec(),"ctx":ctx,"j":j,"level":ap.level(),"nprefixes":ap.prefixes().len(),"nonce":nonce.to_vec(),"honest":honest,
                                "ok":false,"state":[],"vshare":[],"share":rep_shares[j],"err":e.to_string()}));
                return None;
            }
            Err(p) => { out.push(json!({"ev":"panic","where":"verify_init","msg":p,"level":ap.level()})); return None; }
        }
    }
    let mut round_one_msg: Vec<u8> = Vec::new();
    for round in 1..=2usize {
        let mut wire = vshares.clone();
        if let Tamper::VShare(r, a, pos, x) = tamper { if r == round { let l = wire[a].len(); wire[a][pos % l] ^= x; } }
        let st0 = Poplar1VerifierState::get_decoded_with_param(&(v, 0), &states[0]).ok()?;
        let mut dec = Vec::new();
        for w in &wire {
            match Poplar1FieldVec::get_decoded_with_param(&st0, w) { Ok(d) => dec.push(d), Err(_) => { out.push(json!({"ev":"decode_fail","what":"vshare","round":round,"bytes":w,"leaf":leaf})); return None; } }
        }
        let r = guarded(|| v.verifier_shares_to_message(ctx, ap, dec));
        flush(out);
        let carry: Vec<u8> = if round == 1 { let (a, b) = (els(&wire[0], leaf), els(&wire[1], leaf)); (0..3).map(|i| if &a[i] + &b[i] >= p_of(leaf) { 1 } else { 0 }).collect() } else { vec![] };
        let msg = match r {
            Ok(Ok(m)) => { let mb = m.get_encoded().unwrap(); out.push(json!({"ev":"s2m","round":round,"leaf":leaf,"honest":honest,"vshares":wire,"ok":true,"msg":mb,"carry":carry,"msg_len":m.encoded_len()})); mb }
            Ok(Err(_)) => { out.push(json!({"ev":"s2m","round":round,"leaf":leaf,"honest":honest,"vshares":wire,"ok":false,"msg":[],"carry":carry})); return None; }
            Err(p) => { out.push(json!({"ev":"panic","where":"s2m","msg":p})); return None; }
        };
        let mut mb = msg.clone();
        if round == 1 { round_one_msg = msg.clone(); }
        if let Tamper::Msg(r, pos, x) = tamper { if r == round && !mb.is_empty() { let l = mb.len(); mb[pos % l] ^= x; } }
        if let Tamper::MsgSub(r, k) = tamper {
            if r == round {
                let sz = if leaf { 32 } else { 8 };
                mb = match k { 0 => vec![], 1 => round_one_msg[..sz].to_vec(), 2 => round_one_msg[..2 * sz].to_vec(), _ => round_one_msg.clone() };
            }
        }
        let mut next_states = Vec::new();
        let mut next_shares = Vec::new();
        let mut outs = Vec::new();
        for j in 0..2usize {
            let st = Poplar1VerifierState::get_decoded_with_param(&(v, j), &states[j]).ok()?;
            let m = match Poplar1VerifierMessage::get_decoded_with_param(&st, &mb) { Ok(m) => m, Err(_) => { out.push(json!({"ev":"decode_fail","what":"msg","round":round,"bytes":mb,"leaf":leaf})); return None; } };
            let r = guarded(|| v.verify_next(ctx, st, m));
            flush(out);
            match r {
                Ok(Ok(VerifyTransition::Continue(ns, nv))) => {
                    let (nsb, nvb) = (ns.get_encoded().unwrap(), nv.get_encoded().unwrap());
                    // witness q for  A*s0 + B (+ s0^2 + 2p - s1 - s2)  =  v (+ s1 + s2) + q*p
                    let sz = if leaf { 32 } else { 8 };
                    let stb = &states[j][2..];
                    let (a, b) = (BigUint::from_bytes_le(&stb[..sz]), BigUint::from_bytes_le(&stb[sz..2 * sz]));
                    let s = els(&mb, leaf);
                    let vv = BigUint::from_bytes_le(&nvb);
                    let pp = p_of(leaf);
                    let (lhs, rhs) = if j == 1 { (&a * &s[0] + &b + &s[0] * &s[0] + &pp * 2u8, &vv + &s[1] + &s[2]) } else { (&a * &s[0] + &b, vv.clone()) };
                    let q = if lhs >= rhs { (&lhs - &rhs) / &pp } else { BigUint::from(0u8) };
                    out.push(json!({"ev":"vnext","j":j,"round":round,"leaf":leaf,"state":states[j],"msg":mb,"ok":true,"kind":"continue","newstate":nsb,"vshare":nvb,"q":limbs(&q)}));
                    next_states.push(nsb);
                    next_shares.push(nvb);
                }
                Ok(Ok(VerifyTransition::Finish(o))) => {
                    let ob = o.get_encoded().unwrap();
                    out.push(json!({"ev":"vnext","j":j,"round":round,"leaf":leaf,"state":states[j],"msg":mb,"ok":true,"kind":"finish","out":ob,"out_len":o.encoded_len()}));
                    outs.push(ob);
                }
                Ok(Err(_)) => { out.push(json!({"ev":"vnext","j":j,"round":round,"leaf":leaf,"state":states[j],"msg":mb,"ok":false,"kind":"err"})); return None; }
                Err(p) => { out.push(json!({"ev":"panic","where":"verify_next","msg":p})); return None; }
            }
        }
        if outs.len() == 2 { return Some(outs); }
        if next_states.len() != 2 { return None; }
        states = next_states;
        vshares = next_shares;
    }
    None
}

fn prefixes_of(inputs: &[IdpfInput], level: usize, extra: &mut Sm, max: usize) -> Vec<IdpfInput> {
    let mut set: Vec<Vec<bool>> = inputs.iter().map(|i| i.iter().take(level + 1).collect()).collect();
    // siblings and a few random candidates
    for i in 0..set.len().min(3) { let mut s = set[i].clone(); let l = s.len() - 1; s[l] = !s[l]; set.push(s); }
    for _ in 0..2 { set.push((0..=level).map(|_| extra.below(2) == 1).collect()); }
    // cousins of the first input's prefix: one bit flipped at the storage-word boundaries of long prefixes
    if level >= 8 {
        let len = level + 1;
        for pos in [0usize, 1, len % 64, (len % 64).saturating_sub(1), 10, 63, 64, 65, len - 2] {
            if pos < len { let mut s = set[0].clone(); s[pos] = !s[pos]; set.push(s); }
        }
    }
    set.sort();
    set.dedup();
    set.truncate(max);
    set.iter().map(|b| IdpfInput::from_bools(b)).collect()
}

/// Builds an admissible aggregation parameter (non-empty, sorted, distinct, equal-length prefixes of at most `bits` bits);
/// a refusal or panic is recorded as data: the trace spec accepts no refused admissible parameter.
fn mk_ap(ps: Vec<IdpfInput>, out: &mut Vec<Value>) -> Option<Poplar1AggregationParam> {
    let (n, plen) = (ps.len(), ps.first().map(|p| p.len()).unwrap_or(0));
    match guarded(|| Poplar1AggregationParam::try_from_prefixes(ps)) {
        Ok(Ok(ap)) => Some(ap),
        Ok(Err(e)) => { out.push(json!({"ev":"aggparam","ok":false,"n":n,"plen":plen,"err":e.to_string()})); None }
        Err(p) => { out.push(json!({"ev":"panic","where":"try_from_prefixes","msg":p})); None }
    }
}

fn aggregate_level(v: &V, bits: usize, ctx: &[u8], key: &[u8; 32], reports: &[Report], ap: &Poplar1AggregationParam, out: &mut Vec<Value>) -> Option<Vec<u64>> {
    let mut per_agg: Vec<Vec<Poplar1FieldVec>> = vec![Vec::new(), Vec::new()];
    let mut n = 0;
    for r in reports {
        let outs = verify(v, bits, ctx, key, &r.pubb, &r.shares, &r.nonce, ap, true, Tamper::None, out)?;
        for (j, o) in outs.iter().enumerate() {
            per_agg[j].push(Poplar1FieldVec::get_decoded_with_param(&(v, ap), o).ok()?);
        }
        n += 1;
    }
    // honest output shares: aggregation and unsharding must succeed (a refusal or panic is an event the trace spec rejects)
    let r = guarded(|| -> Result<Vec<u64>, String> {
        let a0 = v.aggregate(ap, per_agg[0].clone()).map_err(|e| format!("aggregate: {e}"))?;
        let a1 = v.aggregate(ap, per_agg[1].clone()).map_err(|e| format!("aggregate: {e}"))?;
        v.unshard(ap, [a0, a1], n).map_err(|e| format!("unshard: {e}"))
    });
    let counts = match r {
        Ok(Ok(c)) => c,
        Ok(Err(e)) => { out.push(json!({"ev":"aggregate_refused","level":ap.level(),"err":e})); return None; }
        Err(p) => { out.push(json!({"ev":"panic","where":"aggregate/unshard","msg":p,"level":ap.level()})); return None; }
    };
    out.push(json!({"ev":"result","level":ap.level(),"prefixes":ap.prefixes().iter().map(bits_json).collect::<Vec<_>>(),
                    "inputs":reports.iter().map(|r| bits_json(&r.input)).collect::<Vec<_>>(),"counts":counts}));
    Some(counts)
}

pub fn record(args: &[String]) {
    let path = &args[0];
    let seed: u64 = args[1].parse().unwrap();
    let mode = args[2].as_str();
    let thorough = args.get(3).map(|s| s == "thorough").unwrap_or(false);
    let mut rng = Sm(seed);
    let mut out: Vec<Value> = Vec::new();
    match mode {
        "honest" => {
            // small trees: batches, admissible parameter sequences with level jumps, exact counts, heavy hitters
            for bits in [1usize, 2, 3, 4, 8] {
                for rep in 0..(if thorough { 4 } else { 2 }) {
                    let v: V = Poplar1::new(bits);
                    // context strings of 0, 1, 2 and 300 bytes (every byte of a long context must reach every derivation)
                    let ctx = rng.bytes([0usize, 1, 2, 300][(rep + bits) % 4]);
                    let key: [u8; 32] = rng.bytes(32).try_into().unwrap();
                    out.push(json!({"ev":"begin","bits":bits}));
                    let nin = 1 + rng.below(4) as usize;
                    let mut inputs: Vec<IdpfInput> = (0..nin).map(|_| IdpfInput::from_bools(&(0..bits).map(|_| rng.below(2) == 1).collect::<Vec<_>>())).collect();
                    if nin > 1 { inputs[1] = inputs[0].clone(); } // a repeated input
                    let reports: Vec<Report> = inputs.iter().filter_map(|i| shard(&v, &ctx, i, &mut rng, &mut out, None)).collect();
                    // heavy hitters: every level in turn, candidates = extensions of the surviving prefixes
                    let threshold = 2u64;
                    let mut cands: Vec<Vec<bool>> = vec![vec![false], vec![true]];
                    let mut hitters: Vec<Vec<bool>> = Vec::new();
                    for level in 0..bits {
                        cands.sort();
                        let Some(ap) = mk_ap(cands.iter().map(|c| IdpfInput::from_bools(c)).collect(), &mut out) else { break };
                        let Some(counts) = aggregate_level(&v, bits, &ctx, &key, &reports, &ap, &mut out) else { break };
                        let keep: Vec<Vec<bool>> = cands.iter().zip(counts.iter()).filter(|(_, c)| **c >= threshold).map(|(p, _)| p.clone()).collect();
                        if level == bits - 1 { hitters = keep; break; }
                        cands = keep.iter().flat_map(|p| { let mut a = p.clone(); a.push(false); let mut b = p.clone(); b.push(true); [a, b] }).collect();
                        if cands.is_empty() { break; }
                    }
                    out.push(json!({"ev":"heavy","threshold":threshold,"inputs":inputs.iter().map(bits_json).collect::<Vec<_>>(),
                                    "hitters":hitters.iter().map(|h| h.iter().map(|b| *b as u8).collect::<Vec<_>>()).collect::<Vec<_>>()}));
                    // the same reports with a sequence that jumps levels, arbitrary candidate sets
                    let mut level = rng.below(bits as u64) as usize;
                    loop {
                        let ps = prefixes_of(&inputs, level, &mut rng, 6);
                        let Some(ap) = mk_ap(ps, &mut out) else { break };
                        aggregate_level(&v, bits, &ctx, &key, &reports, &ap, &mut out);
                        level += 1 + rng.below(3) as usize;
                        if level >= bits { break; }
                    }
                }
            }
        }
        "deep" => {
            // long inputs and high levels (the correlated-randomness fast-forward is linear in the level)
            let sizes: Vec<(usize, Vec<usize>)> = if thorough {
                vec![(64, vec![0, 31, 62, 63]), (300, vec![0, 150, 298, 299]), (21850, vec![21845, 21846, 21848, 21849]), (65536, vec![0, 32768, 65534, 65535])]
            } else {
                vec![(64, vec![0, 62, 63]), (300, vec![150, 299]), (21850, vec![21845, 21846, 21849]), (65536, vec![65534, 65535])]
            };
            for (bits, levels) in sizes {
                let v: V = Poplar1::new(bits);
                let ctx = rng.bytes(2);
                let key: [u8; 32] = rng.bytes(32).try_into().unwrap();
                let unit_start = out.len();
                out.push(json!({"ev":"begin","bits":bits}));
                let inputs: Vec<IdpfInput> = (0..2).map(|_| IdpfInput::from_bools(&(0..bits).map(|_| rng.below(2) == 1).collect::<Vec<_>>())).collect();
                let reports: Vec<Report> = inputs.iter().filter_map(|i| shard(&v, &ctx, i, &mut rng, &mut out, None)).collect();
                if bits > 1000 {
                    // the trace would be dominated by megabytes of correction words: keep the verification events only
                    out.truncate(unit_start);
                    out.push(json!({"ev":"begin","bits":bits}));
                }
                for level in levels {
                    let ps = prefixes_of(&inputs, level, &mut rng, 16);
                    let Some(ap) = mk_ap(ps, &mut out) else { continue };
                    let before = out.len();
                    aggregate_level(&v, bits, &ctx, &key, &reports, &ap, &mut out);
                    // pairs of candidates that differ in a single bit around the storage-word boundaries of the (multi-word) cache keys:
                    // the evaluation of the second candidate looks up prefixes one bit away from nodes the first one just cached
                    if level >= 65 && bits <= 1000 {
                        for pos in [level % 64, 63, 64, (level % 64 + 63) / 2] {
                            let b: Vec<bool> = inputs[0].iter().take(level + 1).collect();
                            let mut c = b.clone();
                            c[pos] = !c[pos];
                            let mut pair = vec![b, c];
                            pair.sort();
                            let Some(ap2) = mk_ap(pair.iter().map(|x| IdpfInput::from_bools(x)).collect(), &mut out) else { continue };
                            aggregate_level(&v, bits, &ctx, &key, &reports, &ap2, &mut out);
                        }
                    }
                    if bits > 1000 {
                        // drop the bulky share bytes from vinit events of very deep trees (they are checked on the small trees)
                        for e in out[before..].iter_mut() {
                            if e["ev"] == "vinit" { e["ev"] = json!("vinit_deep"); e["share"] = json!([]); }
                        }
                    }
                }
            }
        }
        "pair" => {
            for bits in [1usize, 2, 5, 16] {
                let v: V = Poplar1::new(bits);
                out.push(json!({"ev":"begin","bits":bits}));
                for _ in 0..(if thorough { 8 } else { 3 }) {
                    let nonce: [u8; 16] = rng.bytes(16).try_into().unwrap();
                    let rand = rng.bytes(128);
                    let i1 = IdpfInput::from_bools(&(0..bits).map(|_| rng.below(2) == 1).collect::<Vec<_>>());
                    let i2 = IdpfInput::from_bools(&(0..bits).map(|k| if k == bits - 1 { !i1.get(k).unwrap() } else { rng.below(2) == 1 }).collect::<Vec<_>>());
                    let ctx = rng.bytes(1);
                    let r1 = shard(&v, &ctx, &i1, &mut rng, &mut out, Some((&nonce, &rand)));
                    let r2 = shard(&v, &ctx, &i2, &mut rng, &mut out, Some((&nonce, &rand)));
                    if let (Some(a), Some(b)) = (r1, r2) {
                        out.push(json!({"ev":"pair","input1":bits_json(&i1),"input2":bits_json(&i2),"pub1":a.pubb,"pub2":b.pubb,"shares1":a.shares,"shares2":b.shares}));
                    }
                }
            }
        }
        "tamper" => {
            // after honest sharding: one bit of (strided) byte positions of the public share, either input share, each
            // verifier share of both rounds and the round-one message; if both aggregators still finish, their output
            // shares must sum to a zero or one-hot vector
            for (bits, level) in [(2usize, 0usize), (2, 1), (4, 1), (4, 3), (9, 5)] {
                let v: V = Poplar1::new(bits);
                let ctx = rng.bytes(1);
                let key: [u8; 32] = rng.bytes(32).try_into().unwrap();
                out.push(json!({"ev":"begin","bits":bits}));
                let input = IdpfInput::from_bools(&(0..bits).map(|_| rng.below(2) == 1).collect::<Vec<_>>());
                let Some(rep) = shard(&v, &ctx, &input, &mut rng, &mut out, None) else { continue };
                let ps = prefixes_of(&[input.clone()], level, &mut rng, 4);
                let n = ps.len();
                let Some(ap) = mk_ap(ps, &mut out) else { continue };
                let leaf = level == bits - 1;
                let mut cases: Vec<(Vec<u8>, Vec<Vec<u8>>, Tamper)> = Vec::new();
                let stride = if thorough { 1 } else { 3 };
                for i in (0..rep.pubb.len()).step_by(stride) { let mut p = rep.pubb.clone(); p[i] ^= 1 << (i % 8); cases.push((p, rep.shares.clone(), Tamper::None)); }
                for j in 0..2 { for i in (0..rep.shares[j].len()).step_by(stride) { let mut s = rep.shares.clone(); s[j][i] ^= 1 << (i % 8); cases.push((rep.pubb.clone(), s, Tamper::None)); } }
                for round in 1..=2 { for a in 0..2 { for pos in (0..(if leaf { 96 } else { 24 })).step_by(stride) { cases.push((rep.pubb.clone(), rep.shares.clone(), Tamper::VShare(round, a, pos, 1 << (pos % 8)))); } } }
                for pos in (0..(if leaf { 96 } else { 24 })).step_by(stride) { cases.push((rep.pubb.clone(), rep.shares.clone(), Tamper::Msg(1, pos, 1 << (pos % 8)))); }
                // a message of the wrong round / a truncated message delivered instead of the genuine one
                for (round, k) in [(1usize, 0u8), (1, 1), (1, 2), (2, 1), (2, 3)] { cases.push((rep.pubb.clone(), rep.shares.clone(), Tamper::MsgSub(round, k))); }
                for (p, s, t) in cases {
                    if let Some(outs) = verify(&v, bits, &ctx, &key, &p, &s, &rep.nonce, &ap, false, t, &mut out) {
                        out.push(json!({"ev":"outsum","leaf":leaf,"n":n,"out0":outs[0],"out1":outs[1]}));
                    }
                }
                // variant mismatches: a state of one level kind / round with a message of the other
                let other_level = if leaf { 0 } else { bits - 1 };
                if other_level != level {
                    let ps2 = prefixes_of(&[input.clone()], other_level, &mut rng, n);
                    let Some(ap2) = mk_ap(ps2, &mut out) else { continue };
                    // (driver-side unwraps below concern honest values; under a defective implementation they surface as a logged panic)
                    let evs = guarded(|| {
                        let mut out: Vec<Value> = Vec::new();
                    let public = Poplar1PublicShare::get_decoded_with_param(&v, &rep.pubb).unwrap();
                    let sh0 = Poplar1InputShare::<32>::get_decoded_with_param(&(&v, 0), &rep.shares[0]).unwrap();
                    let sh1 = Poplar1InputShare::<32>::get_decoded_with_param(&(&v, 1), &rep.shares[1]).unwrap();
                    let (st_a, vs_a0) = v.verify_init(&key, &ctx, 0, &ap, &rep.nonce, &public, &sh0).unwrap();
                    let (_, vs_a1) = v.verify_init(&key, &ctx, 1, &ap, &rep.nonce, &public, &sh1).unwrap();
                    let (st_b, vs_b0) = v.verify_init(&key, &ctx, 0, &ap2, &rep.nonce, &public, &sh0).unwrap();
                    let (_, vs_b1) = v.verify_init(&key, &ctx, 1, &ap2, &rep.nonce, &public, &sh1).unwrap();
                    let _ = take_log();
                    let msg_a = v.verifier_shares_to_message(&ctx, &ap, [vs_a0.clone(), vs_a1.clone()]).unwrap();
                    let msg_b = v.verifier_shares_to_message(&ctx, &ap2, [vs_b0.clone(), vs_b1]).unwrap();
                    // every (verifier state, verifier message) variant pair through verify_next, judged by Poplar1Rounds!VerifyNextOK
                    let kind_a = if leaf { "leaf" } else { "inner" };
                    let kind_b = if leaf { "inner" } else { "leaf" };
                    let st2_a = match v.verify_next(&ctx, st_a.clone(), msg_a.clone()) { Ok(VerifyTransition::Continue(st2, vs2)) => Some((st2, vs2)), _ => None };
                    let st2_b = match v.verify_next(&ctx, st_b.clone(), msg_b.clone()) { Ok(VerifyTransition::Continue(st2, vs2)) => Some((st2, vs2)), _ => None };
                    if let (Some((st2_a, vs2_a0)), Some((st2_b, vs2_b0))) = (st2_a, st2_b) {
                        let done = Poplar1VerifierMessage::get_decoded_with_param(&st2_a, &[]).unwrap();
                        let states = [(kind_a, 1, st_a.clone()), (kind_b, 1, st_b.clone()), (kind_a, 2, st2_a), (kind_b, 2, st2_b)];
                        let msgs = [(kind_a, "sketch", msg_a.clone()), (kind_b, "sketch", msg_b.clone()), ("none", "done", done)];
                        for (sk, sr, st) in states.iter() {
                            for (mk, body, m) in msgs.iter() {
                                let r = guarded(|| v.verify_next(&ctx, st.clone(), m.clone()));
                                let (ok, kind) = match r { Ok(Ok(VerifyTransition::Continue(..))) => (true, "continue"), Ok(Ok(VerifyTransition::Finish(..))) => (true, "finish"), Ok(Err(_)) => (false, "err"), Err(_) => (false, "panic") };
                                out.push(json!({"ev":"variant","skind":sk,"sround":sr,"mkind":mk,"mbody":body,"ok":ok,"kind":kind}));
                            }
                        }
                        // every pair of verifier shares (field kind x round) through verifier_shares_to_message, judged by CombineOK
                        // (empty verifier shares of either kind can be built through the public enum: no length is acceptable but 3 and 1)
                        let empty = |k: &str| if k == "leaf" { Poplar1FieldVec::Leaf(vec![]) } else { Poplar1FieldVec::Inner(vec![]) };
                        let shares = [(kind_a, 3, vs_a0.clone()), (kind_b, 3, vs_b0.clone()), (kind_a, 1, vs2_a0), (kind_b, 1, vs2_b0), (kind_a, 0, empty(kind_a)), (kind_b, 0, empty(kind_b))];
                        for (k0, l0, s0) in shares.iter() {
                            for (k1, l1, s1) in shares.iter() {
                                // equal round-two shares do not sum to zero (that verdict is the zero test of "s2m" events): skip the arithmetic case
                                if *l0 == 1 && *l1 == 1 && k0 == k1 { continue; }
                                let r = guarded(|| v.verifier_shares_to_message(&ctx, &ap, [s0.clone(), s1.clone()]));
                                out.push(json!({"ev":"combine","kind0":k0,"len0":l0,"kind1":k1,"len1":l1,"ok":matches!(r, Ok(Ok(_))),"panic":r.is_err()}));
                            }
                        }
                    }
                    out.push(json!({"ev":"mismatch","what":"one verifier share only","ok":v.verifier_shares_to_message(&ctx, &ap, [vs_a0.clone()]).is_ok()}));
                    out.push(json!({"ev":"mismatch","what":"three verifier shares","ok":v.verifier_shares_to_message(&ctx, &ap, [vs_a0.clone(), vs_a1.clone(), vs_a1]).is_ok()}));
                        out
                    });
                    match evs {
                        Ok(mut evs) => out.append(&mut evs),
                        Err(m) => out.push(json!({"ev":"panic","where":"variants","msg":m})),
                    }
                    let _ = take_log();
                }
            }
        }
        "attack" => {
            // Malicious clients built through the public IDPF API: the IDPF programs (y, auth*y + dz) on the input's path
            // at the attacked level (honest values elsewhere), the leader's B share of that level is off by dB; everything
            // else is the honest report's. y, dz, dB are small integers (negative ones read modulo p). The trace spec
            // decides from Poplar1Rounds!DevWellFormed whether the report must be accepted under every key with a
            // contribution of exactly y at the on-path candidate, or must be rejected under at least one of the keys.
            use prio::field::{Field255, Field64, FieldElement};
            use prio::idpf::{Idpf, IdpfOutputShare};
            use prio::vdaf::poplar1::Poplar1IdpfValue;
            use prio::vdaf::xof::Seed;
            use prio::codec::Decode;
            fn small<F: FieldElement>(x: i64) -> F where F: From<u64> {
                if x >= 0 { F::from(x as u64) } else { -F::from((-x) as u64) }
            }
            let descriptors: Vec<(i64, i64, i64)> = if thorough {
                let mut d = Vec::new();
                for y in [0, 1, 2, -1, 3] { for dz in [0, 1, -1] { for db in [0, 1, -2] { d.push((y, dz, db)); } } }
                d
            } else {
                vec![(1, 0, 0), (0, 0, 0), (2, 0, 0), (-1, 0, 0), (1, 1, 0), (0, 1, 0), (1, 0, 1), (0, 0, -2), (2, 1, 0), (3, 0, 0), (2, -1, 1)]
            };
            for (bits, level) in [(2usize, 0usize), (2, 1), (5, 2), (5, 4), (9, 0)] {
                let v: V = Poplar1::new(bits);
                let leaf = level == bits - 1;
                for (y, dz, db) in descriptors.iter().copied() {
                    let ctx = rng.bytes(2);
                    out.push(json!({"ev":"begin","bits":bits}));
                    let input = IdpfInput::from_bools(&(0..bits).map(|_| rng.below(2) == 1).collect::<Vec<_>>());
                    let Some(rep) = shard(&v, &ctx, &input, &mut rng, &mut out, None) else { continue };
                    let built = guarded(|| {
                        let idpf = Idpf::<Poplar1IdpfValue<Field64>, Poplar1IdpfValue<Field255>>::new((), ());
                        let public = Poplar1PublicShare::get_decoded_with_param(&v, &rep.pubb).unwrap();
                        let keys: Vec<Seed<16>> = (0..2).map(|j| Seed::<16>::get_decoded(&rep.shares[j][..16]).unwrap()).collect();
                        // the honest authenticators, recovered by evaluating both honest IDPF keys on the input's path
                        let mut auth_inner: Vec<Field64> = Vec::new();
                        let mut auth_leaf = Field255::zero();
                        for l in 0..bits {
                            let prefix = input.prefix(l);
                            let o0 = idpf.eval(0, &public, &keys[0], &prefix, &ctx, &rep.nonce, &mut prio::idpf::NoCache::new()).unwrap();
                            let o1 = idpf.eval(1, &public, &keys[1], &prefix, &ctx, &rep.nonce, &mut prio::idpf::NoCache::new()).unwrap();
                            match o0.merge(o1).unwrap() {
                                IdpfOutputShare::Inner(val) => { let b = val.get_encoded().unwrap(); auth_inner.push(Field64::get_decoded(&b[8..]).unwrap()); }
                                IdpfOutputShare::Leaf(val) => { let b = val.get_encoded().unwrap(); auth_leaf = Field255::get_decoded(&b[32..]).unwrap(); }
                            }
                        }
                        let inner: Vec<Poplar1IdpfValue<Field64>> = (0..bits - 1).map(|l| {
                            if l == level { Poplar1IdpfValue::new([small::<Field64>(y), small::<Field64>(y) * auth_inner[l] + small::<Field64>(dz)]) }
                            else { Poplar1IdpfValue::new([Field64::one(), auth_inner[l]]) }
                        }).collect();
                        let leafv = if leaf { Poplar1IdpfValue::new([small::<Field255>(y), small::<Field255>(y) * auth_leaf + small::<Field255>(dz)]) }
                                    else { Poplar1IdpfValue::new([Field255::one(), auth_leaf]) };
                        let (mal_pub, mal_keys) = idpf.gen(&input, inner, leafv, &ctx, &rep.nonce).unwrap();
                        let mut shares = rep.shares.clone();
                        for j in 0..2 { shares[j][..16].copy_from_slice(&mal_keys[j].get_encoded().unwrap()); }
                        // the leader's B share of the attacked level
                        if db != 0 {
                            if leaf {
                                let off = shares[0].len() - 32;
                                let bv = Field255::get_decoded(&shares[0][off..]).unwrap() + small::<Field255>(db);
                                shares[0][off..].copy_from_slice(&bv.get_encoded().unwrap());
                            } else {
                                let off = 16 + 32 + 16 * level + 8;
                                let bv = Field64::get_decoded(&shares[0][off..off + 8]).unwrap() + small::<Field64>(db);
                                shares[0][off..off + 8].copy_from_slice(&bv.get_encoded().unwrap());
                            }
                        }
                        (mal_pub.get_encoded().unwrap(), shares)
                    });
                    let _ = take_log();
                    let (mal_pub, mal_shares) = match built { Ok(x) => x, Err(m) => { out.push(json!({"ev":"panic","where":"attack construction","msg":m})); continue } };
                    // candidates: the on-path prefix, its sibling and random ones
                    let ps = prefixes_of(&[input.clone()], level, &mut rng, 4);
                    let pos = ps.iter().position(|p| *p == input.prefix(level)).unwrap();
                    let n = ps.len();
                    let Some(ap) = mk_ap(ps, &mut out) else { continue };
                    let mut accepted = Vec::new();
                    let mut sums = Vec::new();
                    for _k in 0..2 {
                        let key: [u8; 32] = rng.bytes(32).try_into().unwrap();
                        match verify(&v, bits, &ctx, &key, &mal_pub, &mal_shares, &rep.nonce, &ap, false, Tamper::None, &mut out) {
                            Some(outs) => { accepted.push(true); sums.push(json!({"out0":outs[0],"out1":outs[1]})); }
                            None => accepted.push(false),
                        }
                    }
                    out.push(json!({"ev":"attack","y":y,"dz":dz,"dB":db,"leaf":leaf,"n":n,"pos":pos + 1,"accepted":accepted,"outs":sums}));
                }
            }
        }
        _ => panic!("mode"),
    }
    let mut s = String::new();
    for e in &out {
        s.push_str(&e.to_string());
        s.push('\n');
    }
    std::fs::write(path, s).unwrap();
    let panics = out.iter().filter(|e| e["ev"] == "panic").count();
    emit(json!({"t":"summary","evaluations":out.iter().filter(|e| e["ev"] == "begin").count(),"mismatches":0,"extra":{"events":out.len(),"panics":panics}}));
}
