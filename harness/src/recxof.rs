//! RecordingXof: a wrapper around a real XOF (public `Xof` trait) that logs, for every stream,
//! the exact query (seed, concatenated dst parts, concatenated binder parts) and every byte read.
//! The log entry is written when the stream is dropped, i.e. before the API call that consumed it
//! returns. No hook in /repo is needed.
use prio::vdaf::xof::{SeedStreamTurboShake128, Xof, XofTurboShake128};
use rand_core::{utils::next_word_via_fill, Rng, TryRng};
use serde_json::{json, Value};
use std::cell::RefCell;
use std::convert::Infallible;

thread_local! { pub static LOG: RefCell<Vec<Value>> = const { RefCell::new(Vec::new()) }; }
pub fn log(v: Value) {
    LOG.with(|l| l.borrow_mut().push(v));
}
pub fn take_log() -> Vec<Value> {
    LOG.with(|l| std::mem::take(&mut *l.borrow_mut()))
}

#[derive(Clone, Debug)]
pub struct RecXof {
    inner: XofTurboShake128,
    seed: Vec<u8>,
    dst: Vec<u8>,
    binder: Vec<u8>,
}
pub struct RecStream {
    inner: SeedStreamTurboShake128,
    seed: Vec<u8>,
    dst: Vec<u8>,
    binder: Vec<u8>,
    out: Vec<u8>,
}
impl Xof<32> for RecXof {
    type SeedStream = RecStream;
    fn init(seed: &[u8; 32], dst_parts: &[&[u8]]) -> Self {
        RecXof { inner: XofTurboShake128::init(seed, dst_parts), seed: seed.to_vec(), dst: dst_parts.concat(), binder: vec![] }
    }
    fn update(&mut self, data: &[u8]) {
        self.inner.update(data);
        self.binder.extend_from_slice(data);
    }
    fn into_seed_stream(self) -> RecStream {
        RecStream { inner: self.inner.into_seed_stream(), seed: self.seed, dst: self.dst, binder: self.binder, out: vec![] }
    }
}
impl TryRng for RecStream {
    type Error = Infallible;
    fn try_fill_bytes(&mut self, dest: &mut [u8]) -> Result<(), Infallible> {
        self.inner.fill_bytes(dest);
        self.out.extend_from_slice(dest);
        Ok(())
    }
    fn try_next_u32(&mut self) -> Result<u32, Infallible> {
        next_word_via_fill(self)
    }
    fn try_next_u64(&mut self) -> Result<u64, Infallible> {
        next_word_via_fill(self)
    }
}
impl Drop for RecStream {
    fn drop(&mut self) {
        log(json!({"ev":"xof","seed":self.seed,"dst":self.dst,"binder":self.binder,"out":self.out}));
    }
}
