//! C15: replay of TLC-enumerated random tapes through the real CKS20 sampler layers (hook H6) and the
//! noise addition of the noise-capable types; outcome and exact tape consumption must match the model.
use crate::util::*;
use num_bigint::{BigInt, BigUint};
use prio::dp::distributions::PureDpDiscreteLaplace;
use prio::dp::{DifferentialPrivacyStrategy, PureDpBudget, Rational};
use prio::field::{Field128, Field64, FieldElement};
use prio::flp::gadgets::{Mul, ParallelSum};
use prio::flp::types::{dp_verif, Histogram, L1BoundSum, SumVec};
use prio::verif::dp_samplers as s;
use rand_core::{utils::next_word_via_fill, TryRng};
use serde_json::{json, Value};
use std::convert::Infallible;

/// plays a tape of 16-bit symbols as 32-bit words (symbol in the top half); reading past the end is recorded
pub struct Tape {
    bytes: Vec<u8>,
    pos: usize,
    pub overrun: bool,
}
impl Tape {
    pub fn new(symbols: &[u64]) -> Self {
        let mut bytes = Vec::new();
        for h in symbols {
            bytes.extend(((*h as u32) << 16).to_le_bytes());
        }
        Tape { bytes, pos: 0, overrun: false }
    }
    pub fn consumed_all(&self) -> bool {
        self.pos == self.bytes.len() && !self.overrun
    }
}
impl TryRng for Tape {
    type Error = Infallible;
    fn try_fill_bytes(&mut self, dest: &mut [u8]) -> Result<(), Infallible> {
        for d in dest.iter_mut() {
            if self.pos < self.bytes.len() {
                *d = self.bytes[self.pos];
            } else {
                self.overrun = true;
                // a sampler that keeps asking long after the tape ended is cut off (reported as a mismatch)
                if self.pos > self.bytes.len() + 8192 {
                    panic!("sampler read more than 8 KiB past the end of the tape");
                }
                *d = if (self.pos / 4) % 2 == 0 { 0 } else { 0xff };
            }
            self.pos += 1;
        }
        Ok(())
    }
    fn try_next_u32(&mut self) -> Result<u32, Infallible> {
        next_word_via_fill(self)
    }
    fn try_next_u64(&mut self) -> Result<u64, Infallible> {
        next_word_via_fill(self)
    }
}

pub fn replay(lines: impl Iterator<Item = String>) {
    let mut tl = Tally::new();
    for line in lines {
        let v: Value = serde_json::from_str(&line).expect("line");
        if v.get("tapes").is_some() {
            noise(&v, &mut tl);
            continue;
        }
        let layer = v["layer"].as_str().unwrap();
        let (n, d) = (BigUint::from(v["n"].as_u64().unwrap()), BigUint::from(v["d"].as_u64().unwrap()));
        let tape = u64s(&v["tape"]);
        tl.evaluations += 1;
        let mut t = Tape::new(&tape);
        let got: Result<Value, String> = guarded(|| match layer {
            "below" => json!(s::uniform(BigUint::from(0u8), n.clone(), &mut t).map(|x| u64::try_from(x).unwrap())),
            "bernoulli" => json!(s::bernoulli(n.clone(), d.clone(), &mut t)),
            "bernoulli_exp1" => json!(s::bernoulli_exp1(n.clone(), d.clone(), &mut t)),
            "bernoulli_exp" => json!(s::bernoulli_exp(n.clone(), d.clone(), &mut t)),
            "geometric_exp" => json!(u64::try_from(s::geometric_exp(n.clone(), d.clone(), &mut t)).unwrap()),
            "laplace" => json!(i64::try_from(s::discrete_laplace(n.clone(), d.clone(), &mut t)).unwrap()),
            "gaussian" => json!(i64::try_from(s::discrete_gaussian(n.clone(), d.clone(), &mut t)).unwrap()),
            l => panic!("layer {l}"),
        });
        let case = format!("dp/{layer}/{}_{}", v["n"], v["d"]);
        match got {
            Ok(g) if g == v["out"] && t.consumed_all() => {}
            Ok(g) => tl.mismatch(&case, json!({"tape": tape, "expected": v["out"], "got": g, "consumed_exactly": t.consumed_all(), "overrun": t.overrun})),
            Err(p) => tl.mismatch(&case, json!({"tape": tape, "expected": v["out"], "panic": p})),
        }
        if tl.evaluations % 20000 == 1 {
            tl.sample(json!({"layer": layer, "n": v["n"], "d": v["d"], "tape": tape, "out": v["out"]}));
        }
    }
    tl.finish(json!({}));
}

fn noise(v: &Value, tl: &mut Tally) {
    tl.evaluations += 1;
    let t = &v["t"];
    // budgets beyond 64 bits come as decimal strings
    let big = v["big"]["en_s"].as_str().map(|x| !x.is_empty()).unwrap_or(false);
    let eps = if big { Rational::from_unsigned(v["big"]["en_s"].as_str().unwrap().parse::<u128>().unwrap(), v["big"]["ed_s"].as_str().unwrap().parse::<u128>().unwrap()).unwrap() }
              else { Rational::from_unsigned(v["en"].as_u64().unwrap(), v["ed"].as_u64().unwrap()).unwrap() };
    let strategy = PureDpDiscreteLaplace::from_budget(PureDpBudget::new(eps).unwrap());
    let agg: Vec<i64> = v["agg"].as_array().unwrap().iter().map(|x| x.as_i64().unwrap()).collect();
    let mut symbols: Vec<u64> = Vec::new();
    for tp in v["tapes"].as_array().unwrap() {
        symbols.extend(u64s(tp));
    }
    let expect: Vec<i64> = v["expect"].as_array().unwrap().iter().map(|x| x.as_i64().unwrap()).collect();
    fn run<F: FieldElement + From<u64>>(agg: &[i64], expect: &[i64], symbols: &[u64], f: impl FnOnce(&mut [F], &mut Tape) -> bool) -> Result<(), String> {
        let el = |x: i64| -> F { if x >= 0 { F::from(x as u64) } else { -F::from((-x) as u64) } };
        let mut a: Vec<F> = agg.iter().map(|x| el(*x)).collect();
        let mut tape = Tape::new(symbols);
        if !f(&mut a, &mut tape) {
            return Err("add_noise returned an error".into());
        }
        if !tape.consumed_all() {
            return Err(format!("tape not consumed exactly (overrun={})", tape.overrun));
        }
        let want: Vec<F> = expect.iter().map(|x| el(*x)).collect();
        if a != want {
            return Err("noised aggregate differs from aggregate + noise (mod p)".into());
        }
        Ok(())
    }
    let u = |k: &str| t[k].as_u64().unwrap() as usize;
    let label = t["kind"].as_str().unwrap().to_string();
    if t["tiny"].as_bool() == Some(true) {
        // GF(17): noise of magnitude >= p must be projected into the field by floor-mod (aggregate + noise modulo 17)
        use prio::field::FieldV17;
        let r = guarded(|| -> Result<(), String> {
            let el = |x: i64| -> FieldV17 { let m = x.rem_euclid(17) as u32; FieldV17::from(m) };
            let mut a: Vec<FieldV17> = agg.iter().map(|x| el(*x)).collect();
            let mut tape = Tape::new(&symbols);
            let ty = Histogram::<FieldV17, ParallelSum<FieldV17, Mul>>::new(u("len"), 2).unwrap();
            if dp_verif::histogram(&ty, &strategy, &mut a, &mut tape).is_err() { return Err("add_noise returned an error".into()); }
            if !tape.consumed_all() { return Err("tape not consumed exactly".into()); }
            if a != expect.iter().map(|x| el(*x)).collect::<Vec<_>>() { return Err(format!("noised aggregate {:?} differs from aggregate + noise modulo 17", a)); }
            Ok(())
        });
        if r != Ok(Ok(())) {
            tl.mismatch(&format!("dp/noise/{label}/FieldV17"), json!({"case": v, "got": format!("{r:?}")}));
        }
        return;
    }
    let r64 = guarded(|| match label.as_str() {
        "SumVec" => { let ty = SumVec::<Field64, ParallelSum<Field64, Mul>>::new((1u64 << u("bits")) - 1, u("len"), 2).unwrap(); run::<Field64>(&agg, &expect, &symbols, |a, r| dp_verif::sumvec(&ty, &strategy, a, r).is_ok()) }
        "Histogram" => { let ty = Histogram::<Field64, ParallelSum<Field64, Mul>>::new(u("len"), 2).unwrap(); run::<Field64>(&agg, &expect, &symbols, |a, r| dp_verif::histogram(&ty, &strategy, a, r).is_ok()) }
        _ => {
            let max: u64 = match t["max_s"].as_str() { Some(m) => match m.parse() { Ok(x) => x, Err(_) => return Ok(()) }, None => u("max") as u64 };
            if t["field"].as_str() == Some("Field128") { return Ok(()); }
            let ty = L1BoundSum::<Field64, ParallelSum<Field64, Mul>>::new(max, u("len"), 2).unwrap(); run::<Field64>(&agg, &expect, &symbols, |a, r| dp_verif::l1boundsum(&ty, &strategy, a, r).is_ok()) }
    });
    if r64 != Ok(Ok(())) {
        tl.mismatch(&format!("dp/noise/{label}/Field64"), json!({"case": v, "got": format!("{r64:?}")}));
    }
    fn el128(x: i64) -> Field128 { if x >= 0 { Field128::from(x as u128) } else { -Field128::from((-x) as u128) } }
    let r128 = guarded(|| -> Result<(), String> {
        let mut a: Vec<Field128> = agg.iter().map(|x| el128(*x)).collect();
        let mut tape = Tape::new(&symbols);
        let ok = match label.as_str() {
            "SumVec" => dp_verif::sumvec(&SumVec::<Field128, ParallelSum<Field128, Mul>>::new((1u128 << u("bits")) - 1, u("len"), 2).unwrap(), &strategy, &mut a, &mut tape).is_ok(),
            "Histogram" => dp_verif::histogram(&Histogram::<Field128, ParallelSum<Field128, Mul>>::new(u("len"), 2).unwrap(), &strategy, &mut a, &mut tape).is_ok(),
            _ => {
                if t["field"].as_str() == Some("Field64") { return Ok(()); }
                let max: u128 = match t["max_s"].as_str() { Some(m) => m.parse().unwrap(), None => u("max") as u128 };
                dp_verif::l1boundsum(&L1BoundSum::<Field128, ParallelSum<Field128, Mul>>::new(max, u("len"), 2).unwrap(), &strategy, &mut a, &mut tape).is_ok()
            }
        };
        if !ok { return Err("error".into()); }
        if !tape.consumed_all() { return Err("tape not consumed exactly".into()); }
        if a != expect.iter().map(|x| el128(*x)).collect::<Vec<_>>() { return Err("value".into()); }
        Ok(())
    });
    if r128 != Ok(Ok(())) {
        tl.mismatch(&format!("dp/noise/{label}/Field128"), json!({"case": v, "got": format!("{r128:?}")}));
    }
}
