//! C14: multithreaded gadget evaluation vs serial. Uses hook H5 (fold-state creation / chunk
//! assignment log) and thread pools of varying size; recorded for spec/ParSum_Trace.tla.
use crate::util::*;
use prio::codec::Encode;
use prio::field::{Field128, Field64, FieldElement};
use prio::flp::gadgets::{Mul, ParallelSum, ParallelSumGadget, ParallelSumMultithreaded};
use prio::flp::Gadget;
use prio::vdaf::prio3::{Prio3, Prio3Histogram, Prio3HistogramMultithreaded, Prio3MultihotCountVec, Prio3MultihotCountVecMultithreaded, Prio3SumVec, Prio3SumVecMultithreaded};
use prio::vdaf::test_utils::TestVectorClient;
use prio::vdaf::{Aggregator, Collector, Vdaf, VerifyTransition};
use serde_json::{json, Value};

fn enc<F: FieldElement>(v: &[F]) -> Vec<u8> {
    let mut b = Vec::new();
    for x in v { x.encode(&mut b).unwrap(); }
    b
}

fn gadget_run<F: prio::field::NttFriendlyFieldElement + Send + Sync>(chunks: usize, calls: usize, threads: usize, rng: &mut Sm, out: &mut Vec<Value>)
where
    F::Integer: TryFrom<usize>,
{
    let wire_len = (1 + calls).next_power_of_two();
    let out_len = (2 * (wire_len - 1) + 1).next_power_of_two();
    let inp: Vec<Vec<F>> = (0..2 * chunks).map(|_| (0..wire_len).map(|_| F::from(F::Integer::try_from((rng.next() >> 8) as usize).ok().unwrap()) * F::from(F::Integer::try_from((rng.next() >> 9) as usize).ok().unwrap())).collect()).collect();
    let serial = ParallelSum::<F, Mul>::new(Mul::new(calls), chunks);
    let mt = ParallelSumMultithreaded::<F, Mul>::new(Mul::new(calls), chunks);
    let mut o1 = vec![F::zero(); out_len];
    let r1 = serial.eval_poly(&mut o1, &inp);
    let pool = rayon::ThreadPoolBuilder::new().num_threads(threads).build().unwrap();
    let mut o2 = vec![F::one(); out_len]; // pre-filled: the output must be fully overwritten
    prio::verif::parsum::arm();
    let r2 = pool.install(|| guarded(|| mt.eval_poly(&mut o2, &inp)));
    let log: Vec<(usize, Option<usize>)> = prio::verif::parsum::take();
    out.push(json!({"ev":"run","field":std::any::type_name::<F>(),"chunks":chunks,"calls":calls,"threads":threads,
        "log":log.iter().map(|(id, c)| json!([id, c.map(|x| x as i64).unwrap_or(-1)])).collect::<Vec<_>>(),
        "out_mt":enc(&o2),"out_serial":enc(&o1),"ok_mt":matches!(r2, Ok(Ok(()))),"ok_serial":r1.is_ok(),"states":log.iter().filter(|(_, c)| c.is_none()).count()}));
}

fn e2e<V1, V2>(name: &str, v1: &V1, v2: &V2, m: &V1::Measurement, threads: usize, rng: &mut Sm, out: &mut Vec<Value>)
where
    V1: TestVectorClient<16> + Aggregator<32, 16, AggregationParam = ()> + Collector,
    V2: TestVectorClient<16, Measurement = V1::Measurement> + Aggregator<32, 16, AggregationParam = ()> + Collector + Sync,
    V1::Measurement: Sync,
    V1::AggregateResult: std::fmt::Debug,
    V2::AggregateResult: std::fmt::Debug,
{
    let n = v1.num_aggregators();
    let rand = rng.bytes(2 * n * 32);
    let nonce: [u8; 16] = rng.bytes(16).try_into().unwrap();
    let key: [u8; 32] = rng.bytes(32).try_into().unwrap();
    type RunOut = (Vec<u8>, Vec<Vec<u8>>, Vec<Vec<u8>>, Vec<Vec<u8>>, String);
    fn run<V: TestVectorClient<16> + Aggregator<32, 16, AggregationParam = ()> + Collector>(v: &V, m: &V::Measurement, rand: &[u8], nonce: &[u8; 16], key: &[u8; 32]) -> Result<RunOut, String>
    where V::AggregateResult: std::fmt::Debug {
        let (ps, shares) = v.shard_with_random(b"c14", m, nonce, rand).map_err(|e| format!("shard: {e}"))?;
        let mut states = Vec::new();
        let mut vs = Vec::new();
        for (j, s) in shares.iter().enumerate() {
            let (st, v_) = v.verify_init(key, b"c14", j, &(), nonce, &ps, s).map_err(|e| format!("verify_init: {e}"))?;
            states.push(st);
            vs.push(v_);
        }
        let vsb: Vec<Vec<u8>> = vs.iter().map(|x| x.get_encoded().unwrap()).collect();
        let msg = v.verifier_shares_to_message(b"c14", &(), vs).map_err(|e| format!("s2m: {e}"))?;
        let mut outs = Vec::new();
        let mut aggs = Vec::new();
        for st in states {
            if let VerifyTransition::Finish(o) = v.verify_next(b"c14", st, msg.clone()).map_err(|e| format!("verify_next: {e}"))? {
                outs.push(o.get_encoded().unwrap());
                aggs.push(v.aggregate(&(), [o]).map_err(|e| format!("aggregate: {e}"))?);
            }
        }
        let res = v.unshard(&(), aggs, 1).map_err(|e| format!("unshard: {e}"))?;
        Ok((ps.get_encoded().unwrap(), shares.iter().map(|s| s.get_encoded().unwrap()).collect(), vsb, outs, format!("{res:?}")))
    }
    let a = run(v1, m, &rand, &nonce, &key);
    let pool = rayon::ThreadPoolBuilder::new().num_threads(threads).build().unwrap();
    let b = pool.install(|| guarded(|| run(v2, m, &rand, &nonce, &key))).unwrap_or_else(|p| Err(format!("panic: {p}")));
    match (a, b) {
        (Ok(a), Ok(b)) => out.push(json!({"ev":"e2e","name":name,"threads":threads,"ok":true,"pub_serial":a.0,"pub_mt":b.0,"shares_serial":a.1,"shares_mt":b.1,
                                            "vshares_serial":a.2,"vshares_mt":b.2,"outs_serial":a.3,"outs_mt":b.3,"result_serial":a.4,"result_mt":b.4})),
        (a, b) => out.push(json!({"ev":"e2e","name":name,"threads":threads,"ok":false,"err_serial":a.err().unwrap_or_default(),"err_mt":b.err().unwrap_or_default(),"pub_serial":[],"pub_mt":[],"shares_serial":[],"shares_mt":[],
                             "vshares_serial":[],"vshares_mt":[],"outs_serial":[],"outs_mt":[],"result_serial":"","result_mt":""})),
    }
}

pub fn record(args: &[String]) {
    let path = &args[0];
    let seed: u64 = args[1].parse().unwrap();
    let thorough = args.get(2).map(|s| s == "thorough").unwrap_or(false);
    let mut rng = Sm(seed);
    let mut out: Vec<Value> = Vec::new();
    let threads: Vec<usize> = if thorough { (1..=16).collect() } else { vec![1, 2, 3, 8, 16] };
    let shapes: Vec<(usize, usize)> = if thorough { vec![(1, 1), (2, 1), (3, 10), (23, 10), (23, 100), (1000, 1), (257, 3)] } else { vec![(1, 1), (2, 1), (3, 10), (23, 10), (300, 1)] };
    let reps = if thorough { 6 } else { 2 };
    for &t in &threads {
        for &(chunks, calls) in &shapes {
            for _ in 0..reps {
                gadget_run::<Field128>(chunks, calls, t, &mut rng, &mut out);
            }
            gadget_run::<Field64>(chunks, calls, t, &mut rng, &mut out);
        }
    }
    // end to end: every relation between input length and chunk length (1, dividing, non-dividing, equal, one more,
    // much larger than the input, single element), all three multithreaded aliases, several pool sizes
    let lattice: Vec<(usize, usize)> = vec![(1, 1), (1, 3), (3, 10), (5, 6), (8, 8), (12, 4), (40, 7), (100, 9), (64, 1), (2, 2), (3, 8)];
    for &t in &threads {
        for &(len, chunk) in &lattice {
            if !thorough && t != 1 && t != 3 && t != 16 && (len, chunk) != (40, 7) { continue; }
            let maxm: u128 = if len % 2 == 0 { 7 } else { 5 };
            e2e(&format!("SumVec(max {maxm}, len {len}, chunk {chunk})"), &Prio3::new_sum_vec(2, maxm, len, chunk).unwrap(), &Prio3::new_sum_vec_multithreaded(2, maxm, len, chunk).unwrap(),
                &(0..len).map(|i| (i as u128) % (maxm + 1)).collect(), t, &mut rng, &mut out);
            e2e(&format!("Histogram(len {len}, chunk {chunk})"), &Prio3::new_histogram(2, len, chunk).unwrap(), &Prio3::new_histogram_multithreaded(2, len, chunk).unwrap(),
                &(len * 57 / 100), t, &mut rng, &mut out);
            let w = 1 + len / 10;
            e2e(&format!("MultihotCountVec(len {len}, w {w}, chunk {chunk})"), &Prio3::new_multihot_count_vec(3, len, w, chunk).unwrap(),
                &Prio3::new_multihot_count_vec_multithreaded(3, len, w, chunk).unwrap(), &(0..len).map(|i| i % 13 == 0).collect(), t, &mut rng, &mut out);
        }
    }
    let mut s = String::new();
    for e in &out {
        s.push_str(&e.to_string());
        s.push('\n');
    }
    std::fs::write(path, s).unwrap();
    emit(json!({"t":"summary","evaluations":out.len(),"mismatches":0,"extra":{"events":out.len(),"max_states":out.iter().filter_map(|e| e["states"].as_u64()).max()}}));
}
