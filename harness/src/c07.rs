//! C07 / C08: the real decoders, dispatched from the specification's instance descriptors.
//! `replay`: strings + verdicts from TLC (spec/MC_C07.tla). `fuzz`: seeded random mutations of
//! accepted strings, recorded with the real decoder's verdict for TLC to judge (C08).
use crate::circuits::*;
use crate::util::*;
use prio::codec::{decode_u16_items, decode_u32_items, decode_u8_items, encode_u16_items, encode_u32_items, encode_u8_items, Decode, Encode, ParameterizedDecode};
use prio::field::{Field128, Field255, Field64, FieldElement, FieldElementWithInteger, FieldPrio2, FieldV12289, FieldV17, FieldV193, FieldV40961, NttFriendlyFieldElement};
use prio::flp::gadgets::{Mul, ParallelSum};
use prio::flp::types::{Count, Histogram, L1BoundSum, MultihotCountVec, Sum, SumVec};
use prio::flp::Type;
use prio::idpf::IdpfInput;
use prio::topology::ping_pong::{PingPongContinuation, PingPongMessage};
use prio::vdaf::poplar1::{Poplar1, Poplar1AggregationParam, Poplar1FieldVec, Poplar1InputShare, Poplar1PublicShare, Poplar1VerifierMessage, Poplar1VerifierState};
use prio::vdaf::prio2::{Prio2, Prio2VerifierShare, Prio2VerifierState};
use prio::vdaf::prio3::{Prio3, Prio3InputShare, Prio3PublicShare, Prio3VerifierMessage, Prio3VerifierShare, Prio3VerifyState};
use prio::vdaf::xof::{Seed, XofFixedKeyAes128, XofTurboShake128};
use prio::vdaf::{AggregateShare, OutputShare, Share};
use serde_json::{json, Value};
use std::alloc::{GlobalAlloc, Layout, System};
use std::cell::Cell;
use std::io::Cursor;

// ---- counting allocator (per thread): bytes requested while a decoder runs ----
pub struct Counting;
thread_local! { static ALLOCATED: Cell<u64> = const { Cell::new(0) }; static PEAK_REQ: Cell<u64> = const { Cell::new(0) }; }
unsafe impl GlobalAlloc for Counting {
    unsafe fn alloc(&self, l: Layout) -> *mut u8 {
        if l.size() > limit() {
            return std::ptr::null_mut();
        }
        let _ = ALLOCATED.try_with(|a| a.set(a.get() + l.size() as u64));
        let _ = PEAK_REQ.try_with(|a| if l.size() as u64 > a.get() { a.set(l.size() as u64) });
        System.alloc(l)
    }
    unsafe fn dealloc(&self, p: *mut u8, l: Layout) {
        System.dealloc(p, l)
    }
    unsafe fn realloc(&self, p: *mut u8, l: Layout, n: usize) -> *mut u8 {
        if n > limit() {
            return std::ptr::null_mut();
        }
        let _ = ALLOCATED.try_with(|a| a.set(a.get() + n as u64));
        let _ = PEAK_REQ.try_with(|a| if n as u64 > a.get() { a.set(n as u64) });
        System.realloc(p, l, n)
    }
}
/// Requests above CONFORM_ALLOC_LIMIT bytes fail (the process then aborts cleanly instead of
/// exhausting the machine); unlimited when unset.
fn limit() -> usize {
    static LIMIT: std::sync::atomic::AtomicUsize = std::sync::atomic::AtomicUsize::new(0);
    let _ = &LIMIT;
    let v = LIMIT_SET.load(std::sync::atomic::Ordering::Relaxed);
    if v != 0 { v } else { usize::MAX }
}
pub fn set_limit(n: usize) {
    LIMIT_SET.store(n, std::sync::atomic::Ordering::Relaxed);
}
static LIMIT_SET: std::sync::atomic::AtomicUsize = std::sync::atomic::AtomicUsize::new(0);
fn alloc_reset() {
    ALLOCATED.with(|a| a.set(0));
    PEAK_REQ.with(|a| a.set(0));
}
fn alloc_read() -> (u64, u64) {
    (ALLOCATED.with(|a| a.get()), PEAK_REQ.with(|a| a.get()))
}

thread_local! {
    /// framed mode: decode from a cursor positioned after FRAME junk bytes in front of the string, no end-of-input check
    static FRAMED: Cell<bool> = const { Cell::new(false) };
    static CONSUMED: Cell<usize> = const { Cell::new(0) };
}
const FRAME: usize = 3;
/// Every decoder call of this module goes through here: the whole-message form, or (framed mode) the cursor form.
fn gd<T: ParameterizedDecode<P>, P>(param: &P, bytes: &[u8]) -> Result<T, prio::codec::CodecError> {
    if FRAMED.with(|f| f.get()) {
        let mut buf = vec![0xaa, 0xbb, 0xcc];
        buf.extend_from_slice(bytes);
        let mut c = Cursor::new(&buf[..]);
        c.set_position(FRAME as u64);
        let r = T::decode_with_param(param, &mut c);
        CONSUMED.with(|x| x.set((c.position() as usize).saturating_sub(FRAME)));
        r
    } else {
        T::get_decoded_with_param(param, bytes)
    }
}
/// The decoder of `d` run on a cursor inside a larger buffer: (outcome, bytes consumed).
pub fn decode_framed(d: &Value, bytes: &[u8]) -> (Outcome, usize) {
    FRAMED.with(|f| f.set(true));
    CONSUMED.with(|x| x.set(0));
    let o = decode(d, bytes);
    FRAMED.with(|f| f.set(false));
    (o, CONSUMED.with(|x| x.get()))
}

/// What the real decoder did with a byte string.
pub struct Outcome {
    pub ok: bool,
    pub reenc: Option<Vec<u8>>,
    pub enc_len: Option<Option<usize>>,
    pub panic: Option<String>,
    pub alloc: u64,
    pub peak: u64,
    pub micros: u128,
}

fn finish<T: Encode>(r: Result<Result<T, prio::codec::CodecError>, String>, t0: std::time::Instant) -> Outcome {
    let (alloc, peak) = alloc_read();
    let micros = t0.elapsed().as_micros();
    match r {
        Ok(Ok(v)) => {
            let re = guarded(|| {
                // the encoder appends: into a buffer that already holds bytes it must add exactly what it writes into an empty one
                let whole = v.get_encoded().ok();
                let mut buf = vec![0xaa, 0xbb, 0xcc];
                let appended = v.encode(&mut buf).ok().map(|_| buf);
                (whole, v.encoded_len(), appended)
            });
            match re {
                Ok((reenc, el, appended)) => {
                    let consistent = match (&reenc, &appended) { (Some(w), Some(a)) => a.len() == w.len() + 3 && a[..3] == [0xaa, 0xbb, 0xcc] && a[3..] == w[..], (None, None) => true, _ => false };
                    let panic = if consistent { None } else { Some("encode() into a non-empty buffer does not append get_encoded()".to_string()) };
                    Outcome { ok: true, reenc, enc_len: Some(el), panic, alloc, peak, micros }
                }
                Err(p) => Outcome { ok: true, reenc: None, enc_len: None, panic: Some(format!("encode: {p}")), alloc, peak, micros },
            }
        }
        Ok(Err(_)) => Outcome { ok: false, reenc: None, enc_len: None, panic: None, alloc, peak, micros },
        Err(p) => Outcome { ok: false, reenc: None, enc_len: None, panic: Some(p), alloc, peak, micros },
    }
}
macro_rules! run {
    ($e:expr) => {{
        alloc_reset();
        let t0 = std::time::Instant::now();
        let r = guarded(|| $e);
        finish(r, t0)
    }};
}

struct Items<T>(Vec<T>, u8);
impl<T: Encode> Encode for Items<T> {
    fn encode(&self, b: &mut Vec<u8>) -> Result<(), prio::codec::CodecError> {
        match self.1 {
            1 => encode_u8_items(b, &(), &self.0),
            2 => encode_u16_items(b, &(), &self.0),
            _ => encode_u32_items(b, &(), &self.0),
        }
    }
}
fn items<T: Decode + Encode>(w: u64, bytes: &[u8]) -> Outcome {
    run!({
        let framed = FRAMED.with(|f| f.get());
        let mut buf = if framed { vec![0xaa, 0xbb, 0xcc] } else { vec![] };
        buf.extend_from_slice(bytes);
        let mut c = Cursor::new(&buf[..]);
        c.set_position(if framed { FRAME as u64 } else { 0 });
        let v: Vec<T> = match w {
            1 => decode_u8_items(&(), &mut c),
            2 => decode_u16_items(&(), &mut c),
            _ => decode_u32_items(&(), &mut c),
        }?;
        if framed {
            CONSUMED.with(|x| x.set(c.position() as usize - FRAME));
        } else if c.position() as usize != bytes.len() {
            return Err(prio::codec::CodecError::BytesLeftOver(bytes.len() - c.position() as usize));
        }
        Ok(Items(v, w as u8))
    })
}

fn prio3_dispatch<F: NttFriendlyFieldElement, T: Type<Field = F>>(t: T, d: &Value, bytes: &[u8]) -> Outcome
where
    F::Integer: TryFrom<usize>,
{
    let nagg = d["nagg"].as_u64().unwrap() as u8;
    let np = d["np"].as_u64().unwrap() as u8;
    let j = d["j"].as_u64().unwrap() as usize;
    let v: Prio3<T, XofTurboShake128, 32> = Prio3::new(nagg, np, 0xffff_0000, t).unwrap();
    // a state of the right shape to parameterize verifier share / message decoding
    let state_bytes = vec![0u8; if j == 0 { d["ol"].as_u64().unwrap() as usize * F::ENCODED_SIZE } else { 32 } + if d["jr"].as_bool().unwrap() { 32 } else { 0 }];
    let state = || Prio3VerifyState::get_decoded_with_param(&(&v, j), &state_bytes).expect("zero state decodes");
    match d["ty"].as_str().unwrap() {
        "prio3_pub" => run!(gd::<Prio3PublicShare<32>, _>(&v, bytes)),
        "prio3_share" => run!(gd::<Prio3InputShare<F, 32>, _>(&(&v, j), bytes)),
        "prio3_vshare" => { let st = state(); run!(gd::<Prio3VerifierShare<F, 32>, _>(&st, bytes)) }
        "prio3_msg" => { let st = state(); run!(gd::<Prio3VerifierMessage<32>, _>(&st, bytes)) }
        "prio3_state" => run!(gd::<Prio3VerifyState<F, 32>, _>(&(&v, j), bytes)),
        "prio3_out" => run!(gd::<OutputShare::<F>, _>(&(&v, &()), bytes)),
        "prio3_agg" => run!(gd::<AggregateShare::<F>, _>(&(&v, &()), bytes)),
        "prio3_cont" => run!(gd::<PingPongContinuation::<32, 16, Prio3<T, XofTurboShake128, 32>>, _>(&(&v, j), bytes)),
        t => panic!("type {t}"),
    }
}
macro_rules! prio3_field {
    ($F:ty, $d:expr, $bytes:expr) => {{
        let c = &$d["c"];
        let u = |k: &str| c[k].as_u64().unwrap() as usize;
        let int = |k: &str| <<$F as FieldElementWithInteger>::Integer as TryFrom<usize>>::try_from(u(k)).ok().unwrap();
        match c["kind"].as_str().unwrap() {
            "Count" => prio3_dispatch::<$F, _>(Count::<$F>::new(), $d, $bytes),
            "Sum" => prio3_dispatch::<$F, _>(Sum::<$F>::new(int("max")).unwrap(), $d, $bytes),
            "SumVec" => prio3_dispatch::<$F, _>(SumVec::<$F, ParallelSum<$F, Mul>>::new(int("max"), u("len"), u("chunk")).unwrap(), $d, $bytes),
            "Histogram" => prio3_dispatch::<$F, _>(Histogram::<$F, ParallelSum<$F, Mul>>::new(u("len"), u("chunk")).unwrap(), $d, $bytes),
            "Multihot" => prio3_dispatch::<$F, _>(MultihotCountVec::<$F, ParallelSum<$F, Mul>>::new(u("len"), u("maxw"), u("chunk")).unwrap(), $d, $bytes),
            "L1BoundSum" => prio3_dispatch::<$F, _>(L1BoundSum::<$F, ParallelSum<$F, Mul>>::new(int("max"), u("len"), u("chunk")).unwrap(), $d, $bytes),
            k => panic!("circuit {k}"),
        }
    }};
}

fn poplar_state(leaf: bool, round: u64, j: usize, v: &Poplar1<XofTurboShake128, 32>) -> Poplar1VerifierState {
    // tag (0 inner / 1 leaf), sketch tag (0 + A,B | 1), count 0
    let mut b = vec![if leaf { 1u8 } else { 0 }];
    if round == 1 {
        b.push(0);
        b.extend(vec![0u8; if leaf { 64 } else { 16 }]);
    } else {
        b.push(1);
    }
    b.extend([0, 0, 0, 0]);
    Poplar1VerifierState::get_decoded_with_param(&(v, j), &b).expect("state template decodes")
}

/// `decode_once`, re-measured when it looks slow: the time bound of C08 concerns the decoder, not a descheduled thread on a
/// loaded machine, so a run over the bound is repeated (twice) and the fastest measurement is kept.
pub fn decode(d: &Value, bytes: &[u8]) -> Outcome {
    let mut o = decode_once(d, bytes);
    if o.micros > 100_000 && o.panic.is_none() {
        for _ in 0..2 {
            let again = decode_once(d, bytes);
            if again.micros < o.micros { o.micros = again.micros; }
        }
    }
    o
}
fn decode_once(d: &Value, bytes: &[u8]) -> Outcome {
    let ty = d["ty"].as_str().unwrap();
    match ty {
        "u8" => run!(gd::<u8, ()>(&(), bytes)),
        "u16" => run!(gd::<u16, ()>(&(), bytes)),
        "u32" => run!(gd::<u32, ()>(&(), bytes)),
        "u64" => run!(gd::<u64, ()>(&(), bytes)),
        "seed" => if d["n"] == 16 { run!(gd::<Seed::<16>, ()>(&(), bytes)) } else { run!(gd::<Seed::<32>, ()>(&(), bytes)) },
        "field" => match d["f"].as_str().unwrap() {
            "FieldV17" => run!(gd::<FieldV17, ()>(&(), bytes)),
            "FieldV193" => run!(gd::<FieldV193, ()>(&(), bytes)),
            "FieldV12289" => run!(gd::<FieldV12289, ()>(&(), bytes)),
            "FieldV40961" => run!(gd::<FieldV40961, ()>(&(), bytes)),
            "FieldPrio2" => run!(gd::<FieldPrio2, ()>(&(), bytes)),
            "Field64" => run!(gd::<Field64, ()>(&(), bytes)),
            "Field128" => run!(gd::<Field128, ()>(&(), bytes)),
            "Field255" => run!(gd::<Field255, ()>(&(), bytes)),
            f => panic!("field {f}"),
        },
        "items" => match d["size"].as_u64().unwrap() {
            1 => items::<u8>(d["w"].as_u64().unwrap(), bytes),
            2 => items::<u16>(d["w"].as_u64().unwrap(), bytes),
            _ => items::<u32>(d["w"].as_u64().unwrap(), bytes),
        },
        "pingpong_msg" => run!(gd::<PingPongMessage, ()>(&(), bytes)),
        t if t.starts_with("prio3_") => match d["f"].as_str().unwrap() {
            "FieldV17" => prio3_field!(FieldV17, d, bytes),
            "FieldV40961" => prio3_field!(FieldV40961, d, bytes),
            "Field64" => prio3_field!(Field64, d, bytes),
            "Field128" => prio3_field!(Field128, d, bytes),
            f => panic!("field {f}"),
        },
        t if t.starts_with("poplar1_") => {
            let bits = d["bits"].as_u64().unwrap() as usize;
            match t {
                "poplar1_pub" => { let v = Poplar1::<XofTurboShake128, 32>::new(bits); run!(gd::<Poplar1PublicShare, _>(&v, bytes)) }
                "poplar1_share" => if d["seed"] == 16 {
                    let v = Poplar1::<XofFixedKeyAes128, 16>::new(bits);
                    run!(gd::<Poplar1InputShare::<16>, _>(&(&v, 0), bytes))
                } else {
                    let v = Poplar1::<XofTurboShake128, 32>::new(bits);
                    run!(gd::<Poplar1InputShare::<32>, _>(&(&v, 1), bytes))
                },
                "poplar1_state" => { let v = Poplar1::<XofTurboShake128, 32>::new(bits); let j = d["j"].as_u64().unwrap() as usize; run!(gd::<Poplar1VerifierState, _>(&(&v, j), bytes)) }
                "poplar1_fieldvec" => {
                    let v = Poplar1::<XofTurboShake128, 32>::new(bits);
                    let leaf = d["leaf"].as_bool().unwrap();
                    let n = d["n"].as_u64().unwrap() as usize;
                    if d["ctx"] == "sketch" {
                        // round one: 3 elements; round two: 1 element
                        let st = poplar_state(leaf, if n == 3 { 1 } else { 2 }, 0, &v);
                        run!(gd::<Poplar1FieldVec, _>(&st, bytes))
                    } else {
                        let level = if leaf { bits - 1 } else { 1 };
                        let prefixes: Vec<IdpfInput> = (0..n).map(|i| IdpfInput::from_bools(&(0..=level).map(|b| (i >> (level - b)) & 1 == 1).collect::<Vec<_>>())).collect();
                        let ap = Poplar1AggregationParam::try_from_prefixes(prefixes).unwrap();
                        run!(gd::<Poplar1FieldVec, _>(&(&v, &ap), bytes))
                    }
                }
                "poplar1_msg" => {
                    let v = Poplar1::<XofTurboShake128, 32>::new(bits);
                    let st = poplar_state(d["leaf"].as_bool().unwrap(), d["round"].as_u64().unwrap(), 1, &v);
                    run!(gd::<Poplar1VerifierMessage, _>(&st, bytes))
                }
                t => panic!("type {t}"),
            }
        }
        t if t.starts_with("prio2_") => {
            let n = d["n"].as_u64().unwrap() as usize;
            let j = d["j"].as_u64().unwrap() as usize;
            let v = Prio2::new(n).unwrap();
            match t {
                "prio2_share" => run!(gd::<Share::<FieldPrio2, 32>, _>(&(&v, j), bytes)),
                "prio2_state" => run!(gd::<Prio2VerifierState, _>(&(&v, j), bytes)),
                "prio2_vshare" => {
                    let st = Prio2VerifierState::get_decoded_with_param(&(&v, 1), &[0u8; 32]).unwrap();
                    run!(gd::<Prio2VerifierShare, _>(&st, bytes))
                }
                "prio2_out" => run!(gd::<OutputShare::<FieldPrio2>, _>(&(&v, &()), bytes)),
                "prio2_agg" => run!(gd::<AggregateShare::<FieldPrio2>, _>(&(&v, &()), bytes)),
                t => panic!("type {t}"),
            }
        }
        t => panic!("type {t}"),
    }
}

fn dname(d: &Value) -> String {
    let mut s = d["ty"].as_str().unwrap().to_string();
    for k in ["f", "n", "bits", "seed", "w", "size"] {
        if let Some(v) = d.get(k) {
            if k == "seed" && !s.starts_with("poplar1_share") { continue; }
            s.push_str(&format!("_{}", v.to_string().replace('"', "")));
        }
    }
    s
}

/// Checks one (descriptor, bytes, expected verdict) against the real decoder.
fn check(d: &Value, bytes: &[u8], expect_ok: bool, implied: u64, plen: i64, tl: &mut Tally) -> Outcome {
    let name = dname(d);
    // the decoder on a cursor inside a larger buffer: must consume exactly the encoding at the front (length from the model), or fail
    let (f, consumed) = decode_framed(d, bytes);
    if let Some(p) = &f.panic {
        tl.mismatch(&format!("codec/{name}/framed_panic"), json!({"d": d, "bytes": bytes, "panic": p}));
    } else if f.ok != (plen >= 0) {
        tl.mismatch(&format!("codec/{name}/framed_verdict"), json!({"d": d, "bytes": bytes, "expected_prefix_len": plen, "got_ok": f.ok}));
    } else if f.ok && (consumed as i64 != plen || f.reenc.as_deref() != Some(&bytes[..consumed.min(bytes.len())])) {
        tl.mismatch(&format!("codec/{name}/framed_consumed"), json!({"d": d, "bytes": bytes, "expected_prefix_len": plen, "consumed": consumed, "reencoded": f.reenc}));
    }
    let o = decode(d, bytes);
    let ctx = || json!({"d": d, "bytes": bytes});
    if let Some(p) = &o.panic {
        tl.mismatch(&format!("codec/{name}/panic"), json!({"d": d, "bytes": bytes, "panic": p}));
    } else if o.ok != expect_ok {
        tl.mismatch(&format!("codec/{name}/verdict"), json!({"d": d, "bytes": bytes, "expected_ok": expect_ok, "got_ok": o.ok}));
    } else if o.ok {
        if o.reenc.as_deref() != Some(bytes) {
            tl.mismatch(&format!("codec/{name}/not_canonical"), json!({"d": d, "bytes": bytes, "reencoded": o.reenc}));
        }
        match o.enc_len {
            Some(Some(n)) if n == bytes.len() => {}
            Some(None) => {} // no length advertised
            other => tl.mismatch(&format!("codec/{name}/encoded_len"), json!({"d": d, "len": bytes.len(), "advertised": format!("{other:?}")})),
        }
    }
    // allocation envelope (C08): proportional to the input and to what the decoding parameter implies
    let bound = 64 * (bytes.len() as u64 + implied) + 16384;
    if o.alloc > bound {
        tl.mismatch(&format!("codec/{name}/allocation"), json!({"d": d, "len": bytes.len(), "allocated": o.alloc, "bound": bound, "largest_request": o.peak}));
    }
    if o.micros > 200_000 {
        tl.mismatch(&format!("codec/{name}/slow"), json!({"d": d, "len": bytes.len(), "micros": o.micros as u64}));
    }
    let _ = ctx;
    o
}

pub fn replay(lines: impl Iterator<Item = String>) {
    let mut tl = Tally::new();
    for line in lines {
        let v: Value = serde_json::from_str(&line).expect("line");
        let bytes = bytes_of(&v["bytes"]);
        tl.evaluations += 1;
        check(&v["d"], &bytes, v["ok"].as_bool().unwrap(), v["implied"].as_u64().unwrap_or(0), v["plen"].as_i64().unwrap_or(if v["ok"].as_bool().unwrap() { bytes.len() as i64 } else { -1 }), &mut tl);
        if tl.evaluations % 500 == 1 {
            tl.sample(json!({"d": v["d"], "len": bytes.len(), "ok": v["ok"]}));
        }
    }
    tl.finish(json!({}));
}

/// Seeded random mutations of the accepted strings: recorded for TLC to judge.
pub fn fuzz(args: &[String], lines: impl Iterator<Item = String>) {
    let path = &args[0];
    let seed: u64 = args[1].parse().unwrap();
    let per: usize = args[2].parse().unwrap();
    let mut rng = Sm(seed);
    let mut out = String::new();
    let mut n = 0u64;
    let mut tl = Tally::new();
    for line in lines {
        let v: Value = serde_json::from_str(&line).expect("line");
        if !v["ok"].as_bool().unwrap() {
            continue;
        }
        let base = bytes_of(&v["bytes"]);
        for _ in 0..per {
            let mut b = base.clone();
            let nm = 1 + rng.below(3);
            for _ in 0..nm {
                match rng.below(8) {
                    0 if !b.is_empty() => { let i = rng.below(b.len() as u64) as usize; b[i] ^= 1 << rng.below(8); }
                    1 if !b.is_empty() => { let i = rng.below(b.len() as u64) as usize; b[i] = [0, 1, 0x7f, 0x80, 0xec, 0xed, 0xfe, 0xff][rng.below(8) as usize]; }
                    2 if !b.is_empty() => { let i = rng.below(b.len() as u64) as usize; b.remove(i); }
                    3 => { let i = rng.below(b.len() as u64 + 1) as usize; b.insert(i, rng.next() as u8); }
                    4 => { let k = rng.below(b.len() as u64 + 1) as usize; b.truncate(k); }
                    5 => { let k = rng.below(40) as usize; b.extend(rng.bytes(k)); }
                    6 if b.len() >= 4 => { let i = rng.below(b.len() as u64 - 3) as usize; for x in &mut b[i..i + 4] { *x = 0xff; } }
                    _ if b.len() >= 2 => { let i = rng.below(b.len() as u64 - 1) as usize; b.swap(i, i + 1); }
                    _ => {}
                }
            }
            if b.len() > 4000 { continue; }
            n += 1;
            let o = decode(&v["d"], &b);
            let canonical = o.reenc.as_deref() == Some(&b[..]);
            let len_ok = matches!(o.enc_len, Some(Some(k)) if k == b.len()) || matches!(o.enc_len, Some(None));
            out.push_str(&json!({"d": v["d"], "bytes": b, "ok": o.ok, "panic": o.panic.is_some(), "canonical": canonical, "len_ok": len_ok,
                                 "alloc": o.alloc, "micros": o.micros as u64}).to_string());
            out.push('\n');
            if let Some(p) = &o.panic {
                tl.mismatch(&format!("codec/{}/panic", dname(&v["d"])), json!({"d": v["d"], "bytes": b, "panic": p}));
            }
            // the same string through the cursor form of the decoder (embedded in a larger buffer)
            let (f, consumed) = decode_framed(&v["d"], &b);
            let fcanon = f.reenc.as_deref() == Some(&b[..consumed.min(b.len())]);
            out.push_str(&json!({"d": v["d"], "bytes": b, "framed": true, "ok": f.ok, "panic": f.panic.is_some(), "consumed": consumed, "canonical": fcanon}).to_string());
            out.push('\n');
            if let Some(p) = &f.panic {
                tl.mismatch(&format!("codec/{}/framed_panic", dname(&v["d"])), json!({"d": v["d"], "bytes": b, "panic": p}));
            }
        }
    }
    std::fs::write(path, out).unwrap();
    tl.evaluations = n;
    tl.finish(json!({"events": n}));
}
