//! C20: replay of aggregation-parameter histories / constructor inputs / byte strings with the
//! verdicts computed by TLC from spec/AggParam.tla.
use crate::util::*;
use prio::codec::{Decode, Encode};
use prio::idpf::IdpfInput;
use prio::vdaf::poplar1::{Poplar1, Poplar1AggregationParam};
use prio::vdaf::prio2::Prio2;
use prio::vdaf::prio3::Prio3Count;
use prio::vdaf::xof::XofTurboShake128;
use prio::vdaf::Aggregator;
use serde_json::{json, Value};

fn bits(v: &Value) -> Vec<bool> {
    v.as_array().unwrap().iter().map(|b| b.as_u64().unwrap() == 1).collect()
}
fn mk(v: &Value) -> Result<Poplar1AggregationParam, String> {
    let ps: Vec<IdpfInput> = v.as_array().unwrap().iter().map(|p| IdpfInput::from_bools(&bits(p))).collect();
    Poplar1AggregationParam::try_from_prefixes(ps).map_err(|e| e.to_string())
}
fn prefixes_json(a: &Poplar1AggregationParam) -> Value {
    json!(a.prefixes().iter().map(|p| p.iter().map(|b| b as u8).collect::<Vec<u8>>()).collect::<Vec<_>>())
}
type P1 = Poplar1<XofTurboShake128, 32>;

pub fn replay(lines: impl Iterator<Item = String>) {
    let mut tl = Tally::new();
    let mut params: Vec<Poplar1AggregationParam> = Vec::new();
    let mut bsize = 0;
    for line in lines {
        let v: Value = serde_json::from_str(&line).expect("replay line");
        match v["t"].as_str().unwrap() {
            "params" => {
                bsize = v["B"].as_u64().unwrap();
                params = v["list"].as_array().unwrap().iter().map(|p| {
                    let a = mk(&p["prefixes"]).expect("well-formed parameter refused");
                    assert_eq!(a.level() as u64, p["level"].as_u64().unwrap());
                    a
                }).collect();
            }
            "hist" => {
                let prev: Vec<Poplar1AggregationParam> = u64s(&v["prev"]).iter().map(|i| params[*i as usize - 1].clone()).collect();
                let exp = v["valid"].as_array().unwrap();
                for (i, cur) in params.iter().enumerate() {
                    tl.evaluations += 1;
                    let got = guarded(|| P1::is_agg_param_valid(cur, &prev));
                    if got != Ok(exp[i].as_bool().unwrap()) {
                        tl.mismatch("aggparam/poplar1/is_valid", json!({"B": bsize, "cur": {"level": cur.level(), "prefixes": prefixes_json(cur)},
                            "prev": prev.iter().map(|a| json!({"level": a.level(), "prefixes": prefixes_json(a)})).collect::<Vec<_>>(),
                            "expected": exp[i], "got": format!("{got:?}")}));
                    }
                }
                // single-use rule of Prio3 and Prio2
                let k = prev.len();
                let single = v["single"].as_bool().unwrap();
                tl.evaluations += 2;
                if Prio3Count::is_agg_param_valid(&(), &vec![(); k]) != single {
                    tl.mismatch("aggparam/prio3/is_valid", json!({"previous_uses": k, "expected": single}));
                }
                if Prio2::is_agg_param_valid(&(), &vec![(); k]) != single {
                    tl.mismatch("aggparam/prio2/is_valid", json!({"previous_uses": k, "expected": single}));
                }
                tl.sample(json!({"B": bsize, "prev_indices": v["prev"], "n_cur": params.len()}));
            }
            "ctor" => {
                tl.evaluations += 1;
                let ok = v["ok"].as_bool().unwrap();
                match guarded(|| mk(&v["ps"])) {
                    Ok(Ok(a)) if ok => {
                        let enc = a.get_encoded();
                        if a.level() as i64 != v["level"].as_i64().unwrap() || prefixes_json(&a) != v["ps"] {
                            tl.mismatch("aggparam/poplar1/ctor_value", json!({"ps": v["ps"]}));
                        }
                        if enc.as_ref().ok().map(|e| json!(e)) != Some(v["enc"].clone()) {
                            tl.mismatch("aggparam/poplar1/encode", json!({"ps": v["ps"], "expected": v["enc"], "got": format!("{enc:?}")}));
                        }
                        match guarded(|| a.encoded_len()) {
                            Ok(Some(n)) if n == v["enc"].as_array().unwrap().len() => {}
                            other => tl.mismatch("aggparam/poplar1/encoded_len", json!({"ps": v["ps"], "expected": v["enc"].as_array().unwrap().len(), "got": format!("{other:?}")})),
                        }
                    }
                    Ok(Err(_)) if !ok => {}
                    other => tl.mismatch("aggparam/poplar1/try_from_prefixes", json!({"ps": v["ps"], "expected_ok": ok, "got": format!("{:?}", other.map(|r| r.map(|_| "Ok")))})),
                }
            }
            "dec" => {
                tl.evaluations += 1;
                let bytes = bytes_of(&v["bytes"]);
                let ok = v["ok"].as_bool().unwrap();
                match guarded(|| Poplar1AggregationParam::get_decoded(&bytes)) {
                    Ok(Ok(a)) if ok => {
                        if a.level() as i64 != v["param"]["level"].as_i64().unwrap() || prefixes_json(&a) != v["param"]["prefixes"] {
                            tl.mismatch("aggparam/poplar1/decode_value", json!({"bytes": bytes, "expected": v["param"]}));
                        }
                        if a.get_encoded().ok() != Some(bytes.clone()) {
                            tl.mismatch("aggparam/poplar1/decode_not_canonical", json!({"bytes": bytes}));
                        }
                    }
                    Ok(Err(_)) if !ok => {}
                    Err(p) => tl.mismatch("aggparam/poplar1/decode_panic", json!({"bytes": bytes, "expected_ok": ok, "panic": p})),
                    other => tl.mismatch("aggparam/poplar1/decode", json!({"bytes": bytes, "expected_ok": ok, "got": format!("{:?}", other.map(|r| r.map(|_| "Ok").map_err(|e| e.to_string())))})),
                }
            }
            _ => unreachable!(),
        }
    }
    tl.finish(json!({}));
}
