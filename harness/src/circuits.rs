//! Construction of the shipped FLP types from the specification's circuit descriptors, over any
//! field with a u32 integer type (the tiny verification fields), plus a harness-side user-defined
//! degree-3 circuit built only from the library's public `Flp`/`Type`/`PolyEval` API.
use prio::field::{FieldElementWithInteger, NttFriendlyFieldElement};
use prio::flp::gadgets::{Mul, ParallelSum, PolyEval};
use prio::flp::types::{Count, Histogram, L1BoundSum, MultihotCountVec, Sum, SumVec};
use prio::flp::{Flp, FlpError, Gadget, Type};
use serde_json::Value;
use std::marker::PhantomData;

pub trait TinyField: NttFriendlyFieldElement + FieldElementWithInteger<Integer = u32> {
    fn to_u32(self) -> u32;
}
impl<F> TinyField for F
where
    F: NttFriendlyFieldElement + FieldElementWithInteger<Integer = u32>,
    u32: From<F>,
{
    fn to_u32(self) -> u32 {
        u32::from(self)
    }
}

pub fn fe<F: TinyField>(x: u64) -> F {
    F::from(x as u32)
}
pub fn fvec<F: TinyField>(v: &Value) -> Vec<F> {
    v.as_array().map(|a| a.iter().map(|x| fe::<F>(x.as_u64().unwrap())).collect()).unwrap_or_default()
}
pub fn ints<F: TinyField>(v: &[F]) -> Vec<u32> {
    v.iter().map(|x| x.to_u32()).collect()
}

/// x (x-1) (x-2): the degree-3 test circuit of the reference implementation, as a user-defined type.
#[derive(Debug, Clone, PartialEq, Eq)]
pub struct HigherDegree<F>(PhantomData<F>);
impl<F> HigherDegree<F> {
    pub fn new() -> Self {
        HigherDegree(PhantomData)
    }
}
impl<F: TinyField> Flp for HigherDegree<F> {
    type Field = F;
    fn gadget(&self) -> Vec<Box<dyn Gadget<F>>> {
        vec![Box::new(PolyEval::new(vec![fe::<F>(0), fe::<F>(2), -fe::<F>(3), fe::<F>(1)], 1))]
    }
    fn num_gadgets(&self) -> usize {
        1
    }
    fn valid(&self, g: &mut Vec<Box<dyn Gadget<F>>>, input: &[F], joint_rand: &[F], _n: usize) -> Result<Vec<F>, FlpError> {
        self.valid_call_check(input, joint_rand)?;
        Ok(vec![g[0].eval(input)?])
    }
    fn input_len(&self) -> usize {
        1
    }
    fn proof_len(&self) -> usize {
        1 + 3 * (2 - 1) + 1
    }
    fn verifier_len(&self) -> usize {
        3
    }
    fn joint_rand_len(&self) -> usize {
        0
    }
    fn eval_output_len(&self) -> usize {
        1
    }
    fn prove_rand_len(&self) -> usize {
        1
    }
}
impl<F: TinyField> Type for HigherDegree<F> {
    type Measurement = u32;
    type AggregateResult = u32;
    fn encode_measurement(&self, m: &u32) -> Result<Vec<F>, FlpError> {
        Ok(vec![F::from(*m)])
    }
    fn truncate(&self, input: Vec<F>) -> Result<Vec<F>, FlpError> {
        self.truncate_call_check(&input)?;
        Ok(input)
    }
    fn decode_result(&self, data: &[F], _n: usize) -> Result<u32, FlpError> {
        Ok(data[0].to_u32())
    }
    fn output_len(&self) -> usize {
        1
    }
}

/// `len` digits in 0..=2, each checked by the degree-3 gadget x (x-1) (x-2): a user-defined type whose gadget has degree
/// above two AND is called several times (no shipped circuit combines the two).
#[derive(Debug, Clone, PartialEq, Eq)]
pub struct Ternary<F>(pub usize, PhantomData<F>);
impl<F> Ternary<F> {
    pub fn new(len: usize) -> Self {
        Ternary(len, PhantomData)
    }
}
impl<F: TinyField> Flp for Ternary<F> {
    type Field = F;
    fn gadget(&self) -> Vec<Box<dyn Gadget<F>>> {
        vec![Box::new(PolyEval::new(vec![fe::<F>(0), fe::<F>(2), -fe::<F>(3), fe::<F>(1)], self.0))]
    }
    fn num_gadgets(&self) -> usize {
        1
    }
    fn valid(&self, g: &mut Vec<Box<dyn Gadget<F>>>, input: &[F], joint_rand: &[F], _n: usize) -> Result<Vec<F>, FlpError> {
        self.valid_call_check(input, joint_rand)?;
        input.iter().map(|x| g[0].eval(std::slice::from_ref(x))).collect()
    }
    fn input_len(&self) -> usize {
        self.0
    }
    fn proof_len(&self) -> usize {
        1 + 3 * ((1 + self.0).next_power_of_two() - 1) + 1
    }
    fn verifier_len(&self) -> usize {
        3
    }
    fn joint_rand_len(&self) -> usize {
        0
    }
    fn eval_output_len(&self) -> usize {
        self.0
    }
    fn prove_rand_len(&self) -> usize {
        1
    }
}
impl<F: TinyField> Type for Ternary<F> {
    type Measurement = Vec<u32>;
    type AggregateResult = Vec<u32>;
    fn encode_measurement(&self, m: &Vec<u32>) -> Result<Vec<F>, FlpError> {
        if m.len() != self.0 { return Err(FlpError::Encode("length".into())); }
        Ok(m.iter().map(|x| F::from(*x)).collect())
    }
    fn truncate(&self, input: Vec<F>) -> Result<Vec<F>, FlpError> {
        self.truncate_call_check(&input)?;
        Ok(input)
    }
    fn decode_result(&self, data: &[F], _n: usize) -> Result<Vec<u32>, FlpError> {
        Ok(data.iter().map(|x| x.to_u32()).collect())
    }
    fn output_len(&self) -> usize {
        self.0
    }
}
impl<F: TinyField> FromSpec for Ternary<F> {
    fn meas(v: &Value) -> Vec<u32> {
        all(v).into_iter().map(|x| x as u32).collect()
    }
    fn result(r: &Vec<u32>) -> Vec<u64> {
        r.iter().map(|x| *x as u64).collect()
    }
}

/// Measurement conversion from the spec's sequence form.
pub trait FromSpec: Type {
    fn meas(v: &Value) -> Self::Measurement;
    /// aggregate result as a list of integers
    fn result(r: &Self::AggregateResult) -> Vec<u64>;
}
fn first(v: &Value) -> u64 {
    v.as_array().unwrap()[0].as_u64().unwrap()
}
fn all(v: &Value) -> Vec<u64> {
    v.as_array().unwrap().iter().map(|x| x.as_u64().unwrap()).collect()
}
impl<F: TinyField> FromSpec for Count<F> {
    fn meas(v: &Value) -> bool {
        first(v) == 1
    }
    fn result(r: &u32) -> Vec<u64> {
        vec![*r as u64]
    }
}
impl<F: TinyField> FromSpec for HigherDegree<F> {
    fn meas(v: &Value) -> u32 {
        first(v) as u32
    }
    fn result(r: &u32) -> Vec<u64> {
        vec![*r as u64]
    }
}
impl<F: TinyField> FromSpec for Sum<F> {
    fn meas(v: &Value) -> u32 {
        first(v) as u32
    }
    fn result(r: &u32) -> Vec<u64> {
        vec![*r as u64]
    }
}
impl<F: TinyField> FromSpec for SumVec<F, ParallelSum<F, Mul>> {
    fn meas(v: &Value) -> Vec<u32> {
        all(v).into_iter().map(|x| x as u32).collect()
    }
    fn result(r: &Vec<u32>) -> Vec<u64> {
        r.iter().map(|x| *x as u64).collect()
    }
}
impl<F: TinyField> FromSpec for L1BoundSum<F, ParallelSum<F, Mul>> {
    fn meas(v: &Value) -> Vec<u32> {
        all(v).into_iter().map(|x| x as u32).collect()
    }
    fn result(r: &Vec<u32>) -> Vec<u64> {
        r.iter().map(|x| *x as u64).collect()
    }
}
impl<F: TinyField> FromSpec for Histogram<F, ParallelSum<F, Mul>> {
    fn meas(v: &Value) -> usize {
        first(v) as usize
    }
    fn result(r: &Vec<u32>) -> Vec<u64> {
        r.iter().map(|x| *x as u64).collect()
    }
}
impl<F: TinyField> FromSpec for MultihotCountVec<F, ParallelSum<F, Mul>> {
    fn meas(v: &Value) -> Vec<bool> {
        all(v).into_iter().map(|x| x == 1).collect()
    }
    fn result(r: &Vec<u32>) -> Vec<u64> {
        r.iter().map(|x| *x as u64).collect()
    }
}

/// Calls `$body` with `$t` bound to the concrete type described by `$c` over field `$F`.
#[macro_export]
macro_rules! with_circuit {
    ($F:ty, $c:expr, $t:ident, $body:expr) => {{
        use prio::flp::gadgets::{Mul, ParallelSum};
        use prio::flp::types::{Count, Histogram, L1BoundSum, MultihotCountVec, Sum, SumVec};
        let c: &serde_json::Value = $c;
        let u = |k: &str| c[k].as_u64().unwrap();
        match c["kind"].as_str().unwrap() {
            "Count" => { let $t = Count::<$F>::new(); $body }
            "HigherDegree" => { let $t = $crate::circuits::HigherDegree::<$F>::new(); $body }
            "Ternary" => { let $t = $crate::circuits::Ternary::<$F>::new(u("len") as usize); $body }
            "Sum" => { let $t = Sum::<$F>::new(u("max") as u32).unwrap(); $body }
            "SumVec" => { let $t = SumVec::<$F, ParallelSum<$F, Mul>>::new(u("max") as u32, u("len") as usize, u("chunk") as usize).unwrap(); $body }
            "Histogram" => { let $t = Histogram::<$F, ParallelSum<$F, Mul>>::new(u("len") as usize, u("chunk") as usize).unwrap(); $body }
            "Multihot" => { let $t = MultihotCountVec::<$F, ParallelSum<$F, Mul>>::new(u("len") as usize, u("maxw") as usize, u("chunk") as usize).unwrap(); $body }
            "L1BoundSum" => { let $t = L1BoundSum::<$F, ParallelSum<$F, Mul>>::new(u("max") as u32, u("len") as usize, u("chunk") as usize).unwrap(); $body }
            k => panic!("unknown circuit kind {k}"),
        }
    }};
}

/// Dispatch on the spec's prime.
#[macro_export]
macro_rules! with_field {
    ($p:expr, $F:ident, $body:expr) => {{
        match $p {
            17 => { type $F = prio::field::FieldV17; $body }
            193 => { type $F = prio::field::FieldV193; $body }
            12289 => { type $F = prio::field::FieldV12289; $body }
            40961 => { type $F = prio::field::FieldV40961; $body }
            p => panic!("no tiny field for prime {p}"),
        }
    }};
}

pub fn cname(c: &Value) -> String {
    let mut s = c["kind"].as_str().unwrap().to_string();
    for k in ["max", "maxw", "len", "chunk"] {
        if let Some(v) = c.get(k) {
            s.push_str(&format!("_{k}{v}"));
        }
    }
    s
}
