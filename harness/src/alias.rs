//! C01 on the deployed instantiations: honest batches through the shipped Prio3 alias constructors, recorded for
//! spec/Aliases_Trace.tla (algorithm identifier, every encoded length, acceptance, result = plain aggregate mod p).
use crate::util::*;
use num_bigint::BigUint;
use num_traits::Zero;
use prio::codec::Encode;
use prio::vdaf::prio3::Prio3;
use prio::vdaf::test_utils::TestVectorClient;
use prio::vdaf::{Aggregator, Collector, Vdaf, VerifyTransition};
use serde_json::{json, Value};

fn p64() -> BigUint { (BigUint::from(1u8) << 64) - (BigUint::from(1u8) << 32) + 1u8 }
fn p128() -> BigUint { (BigUint::from(1u8) << 128) - (BigUint::from(7u8) << 66) + 1u8 }

struct Run { algo: u32, nshares: usize, lens: Value, result: Vec<BigUint>, count: usize }

fn run<V>(v: &V, meas: &[V::Measurement], extra_lens: (usize, usize), to_vec: impl Fn(V::AggregateResult, usize) -> Result<Vec<BigUint>, String>, rng: &mut Sm) -> Result<Run, String>
where V: TestVectorClient<16> + Aggregator<32, 16, AggregationParam = ()> + Collector {
    let n = v.num_aggregators();
    let key: [u8; 32] = rng.bytes(32).try_into().unwrap();
    let ctx = rng.bytes(3);
    let mut lens = json!({});
    let mut aggs: Vec<Option<V::AggregateShare>> = (0..n).map(|_| None).collect();
    let mut nshares = 0;
    for m in meas {
        let nonce: [u8; 16] = rng.bytes(16).try_into().unwrap();
        // sharding randomness: 2n seeds for types with joint randomness, n seeds otherwise
        let rand = rng.bytes(2 * n * 32);
        let (ps, shares) = match v.shard_with_random(&ctx, m, &nonce, &rand) {
            Ok(x) => x,
            Err(_) => v.shard_with_random(&ctx, m, &nonce, &rand[..n * 32]).map_err(|e| format!("shard: {e}"))?,
        };
        nshares = shares.len();
        let mut states = Vec::new();
        let mut vs = Vec::new();
        for (j, s) in shares.iter().enumerate() {
            let (st, x) = v.verify_init(&key, &ctx, j, &(), &nonce, &ps, s).map_err(|e| format!("verify_init: {e}"))?;
            states.push(st);
            vs.push(x);
        }
        let vlen = vs[0].get_encoded().unwrap().len();
        if vs.iter().any(|x| x.get_encoded().unwrap().len() != vlen) { return Err("verifier shares of different lengths".into()); }
        let msg = v.verifier_shares_to_message(&ctx, &(), vs).map_err(|e| format!("s2m: {e}"))?;
        let mut olen = 0;
        for (j, st) in states.into_iter().enumerate() {
            match v.verify_next(&ctx, st, msg.clone()).map_err(|e| format!("verify_next: {e}"))? {
                VerifyTransition::Finish(o) => {
                    olen = o.get_encoded().unwrap().len();
                    match aggs[j].as_mut() { None => aggs[j] = Some(v.aggregate(&(), [o]).map_err(|e| format!("aggregate: {e}"))?), Some(a) => { use prio::vdaf::Aggregatable; a.accumulate(&o).map_err(|e| format!("accumulate: {e}"))? } }
                }
                _ => return Err("verify_next did not finish".into()),
            }
        }
        let helper_len = if n > 1 { shares[1].get_encoded().unwrap().len() } else { 0 };
        if shares.iter().skip(1).any(|s| s.get_encoded().unwrap().len() != helper_len) { return Err("helper shares of different lengths".into()); }
        lens = json!({"pub": ps.get_encoded().unwrap().len(), "leader": shares[0].get_encoded().unwrap().len(), "helper": helper_len, "vshare": vlen,
                      "msg": msg.get_encoded().unwrap().len(), "out": olen, "agg": 0, "verifier_len": extra_lens.0, "output_len": extra_lens.1});
    }
    let aggs: Vec<V::AggregateShare> = aggs.into_iter().map(|a| a.unwrap()).collect();
    lens["agg"] = json!(aggs[0].get_encoded().unwrap().len());
    let res = v.unshard(&(), aggs, meas.len()).map_err(|e| format!("unshard: {e}"))?;
    Ok(Run { algo: v.algorithm_id(), nshares, lens, result: to_vec(res, meas.len())?, count: meas.len() })
}

fn emit_alias(out: &mut Vec<Value>, mut ev: Value, meas: Vec<Vec<BigUint>>, p: BigUint, plain: Vec<BigUint>, r: Result<Result<Run, String>, String>) {
    ev["ev"] = json!("alias");
    ev["meas"] = json!(meas.iter().map(|m| m.iter().map(limbs).collect::<Vec<_>>()).collect::<Vec<_>>());
    match r {
        Ok(Ok(run)) => {
            ev["ok"] = json!(true); ev["algo"] = json!([run.algo >> 16, run.algo & 0xffff]); ev["nshares"] = json!(run.nshares); ev["lens"] = run.lens; ev["count"] = json!(run.count);
            ev["result"] = json!(run.result.iter().map(limbs).collect::<Vec<_>>());
            // witnesses for  plain = result + q * p  (checked by TLC, which recomputes the plain aggregate itself)
            ev["q"] = json!(plain.iter().map(|x| limbs(&(x / &p))).collect::<Vec<_>>());
        }
        Ok(Err(e)) => { ev["ok"] = json!(false); ev["err"] = json!(e); }
        Err(pn) => { ev["ok"] = json!(false); ev["err"] = json!(format!("panic: {pn}")); }
    }
    out.push(ev);
}

pub fn record(args: &[String]) {
    let path = &args[0];
    let seed: u64 = args[1].parse().unwrap();
    let thorough = args.get(2).map(|s| s == "thorough").unwrap_or(false);
    let mut rng = Sm(seed);
    let mut out: Vec<Value> = Vec::new();
    let b = |x: u128| BigUint::from(x);
    let naggs: Vec<u8> = if thorough { vec![2, 3, 4, 7, 128, 254] } else { vec![2, 3, 254] };
    let small_naggs: Vec<u8> = if thorough { vec![2, 3, 5] } else { vec![2, 3] };
    // ---- count ----
    for &n in &naggs {
        let meas = vec![true, false, true, true];
        let r = guarded(|| Prio3::new_count(n).map_err(|e| format!("new: {e}")).and_then(|v| { let el = (v.verifier_len(), v.output_len()); run(&v, &meas, el, |r, _| Ok(vec![BigUint::from(r)]), &mut rng) }));
        emit_alias(&mut out, json!({"alias":"count","nagg":n}), meas.iter().map(|m| vec![b(*m as u128)]).collect(), p64(), vec![b(3)], r);
    }
    // ---- sum (Field64): bounds at bit-width edges ----
    let p64m = (1u128 << 64) - (1u128 << 32); // p - 1
    for &n in &small_naggs {
        for max in [1u128, 2, 3, 255, 256, (1 << 32) - 1, 1 << 32, (1 << 63) - 1, 1 << 63, p64m - 1, p64m] {
            if max > u64::MAX as u128 { continue; }
            let meas: Vec<u64> = vec![0, max as u64, (max / 2 + 1).min(max) as u64, max as u64];
            let plain: BigUint = meas.iter().map(|m| b(*m as u128)).sum();
            let r = guarded(|| Prio3::new_sum(n, max as u64).map_err(|e| format!("new: {e}")).and_then(|v| { let el = (v.verifier_len(), v.output_len()); run(&v, &meas, el, |r, _| Ok(vec![BigUint::from(r)]), &mut rng) }));
            emit_alias(&mut out, json!({"alias":"sum","nagg":n,"max":limbs(&b(max))}), meas.iter().map(|m| vec![b(*m as u128)]).collect(), p64(), vec![plain], r);
        }
    }
    // ---- average (Field128) ----
    for &n in &small_naggs {
        let p128m = ((1u128 << 127) - (7u128 << 65)) * 2; // p - 1 = 2^128 - 7*2^66
        for max in [1u128, 255, 1 << 32, u64::MAX as u128, (1 << 100) + 5, (1 << 126) + 1, 1 << 127, p128m] {
            // batches whose sums sit at 2^k edges: below 2^64, between 2^64 and 2^127, and in [2^127, p)
            let meas: Vec<u128> = if max == 1 { vec![1, 1, 0, 0] } else if max >= 1 << 126 { if n == 2 { vec![max] } else { vec![max.min(1 << 127), 1, 2, 3] } }
                                  else { vec![0, max, max / 2, max / 2 + (max % 2)] };
            let plain: BigUint = meas.iter().map(|m| b(*m)).sum();
            let plain2 = plain.clone();
            let r = guarded(|| Prio3::new_average(n, max).map_err(|e| format!("new: {e}")).and_then(|v| {
                let el = (v.verifier_len(), v.output_len());
                run(&v, &meas, el, |r: f64, cnt| {
                    // the mean is sum / count in f64; below 2^52 the product is exact, above we accept the f64 rounding of the true mean
                    let truth = plain2.clone();
                    let back = r * cnt as f64;
                    let exact = truth.to_string().parse::<f64>().unwrap();
                    if (back - exact).abs() <= exact * 1e-12 { Ok(vec![truth]) } else { Err(format!("mean {r} * {cnt} = {back}, plain sum {exact}")) }
                }, &mut rng)
            }));
            emit_alias(&mut out, json!({"alias":"average","nagg":n,"max":limbs(&b(max))}), meas.iter().map(|m| vec![b(*m)]).collect(), p128(), vec![plain], r);
        }
    }
    // ---- sumvec / histogram / multihot / l1boundsum (Field128): every relation between length and chunk length ----
    let shapes: Vec<(usize, usize)> = if thorough { vec![(1, 1), (1, 3), (2, 1), (3, 10), (5, 2), (5, 6), (8, 8), (10, 3), (12, 4), (40, 7), (100, 9), (100, 10), (257, 16)] }
                                      else { vec![(1, 1), (1, 3), (3, 10), (5, 2), (8, 8), (10, 3), (40, 7), (100, 10)] };
    for &n in &small_naggs {
        for &(len, chunk) in &shapes {
            for max in [1u128, 2, 7, 255, 256, (1 << 64) - 1, 1 << 64] {
                if max > 7 && (len, chunk) != (5, 2) && (len, chunk) != (10, 3) { continue; }
                let meas: Vec<Vec<u128>> = (0..3).map(|k| (0..len).map(|i| if k == 0 { max } else { ((i as u128 + k) * 37) % (max + 1) }).collect()).collect();
                let plain: Vec<BigUint> = (0..len).map(|i| meas.iter().map(|m| b(m[i])).sum()).collect();
                for mt in [false, true] {
                    if mt && n != 2 { continue; }
                    let r = if mt { guarded(|| Prio3::new_sum_vec_multithreaded(n, max, len, chunk).map_err(|e| format!("new: {e}")).and_then(|v| { let el = (v.verifier_len(), v.output_len()); run(&v, &meas, el, |r, _| Ok(r.into_iter().map(BigUint::from).collect()), &mut rng) })) }
                            else { guarded(|| Prio3::new_sum_vec(n, max, len, chunk).map_err(|e| format!("new: {e}")).and_then(|v| { let el = (v.verifier_len(), v.output_len()); run(&v, &meas, el, |r, _| Ok(r.into_iter().map(BigUint::from).collect()), &mut rng) })) };
                    emit_alias(&mut out, json!({"alias":"sumvec","mt":mt,"nagg":n,"max":limbs(&b(max)),"len":len,"chunk":chunk}), meas.iter().map(|m| m.iter().map(|x| b(*x)).collect()).collect(), p128(), plain.clone(), r);
                }
            }
            // histogram
            let meas: Vec<usize> = vec![0, len - 1, len / 2, len - 1];
            let plain: Vec<BigUint> = (0..len).map(|i| b(meas.iter().filter(|m| **m == i).count() as u128)).collect();
            for mt in [false, true] {
                if mt && n != 2 { continue; }
                let r = if mt { guarded(|| Prio3::new_histogram_multithreaded(n, len, chunk).map_err(|e| format!("new: {e}")).and_then(|v| { let el = (v.verifier_len(), v.output_len()); run(&v, &meas, el, |r, _| Ok(r.into_iter().map(BigUint::from).collect()), &mut rng) })) }
                        else { guarded(|| Prio3::new_histogram(n, len, chunk).map_err(|e| format!("new: {e}")).and_then(|v| { let el = (v.verifier_len(), v.output_len()); run(&v, &meas, el, |r, _| Ok(r.into_iter().map(BigUint::from).collect()), &mut rng) })) };
                emit_alias(&mut out, json!({"alias":"histogram","mt":mt,"nagg":n,"len":len,"chunk":chunk}), meas.iter().map(|m| vec![b(*m as u128)]).collect(), p128(), plain.clone(), r);
            }
            // multihot: maximum weights 1, len/2+1, len
            for maxw in [1usize, len / 2 + 1, len] {
                let meas: Vec<Vec<bool>> = vec![(0..len).map(|i| i < maxw).collect(), vec![false; len], (0..len).map(|i| i == len - 1).collect()];
                let plain: Vec<BigUint> = (0..len).map(|i| b(meas.iter().filter(|m| m[i]).count() as u128)).collect();
                for mt in [false, true] {
                    if mt && n != 2 { continue; }
                    let r = if mt { guarded(|| Prio3::new_multihot_count_vec_multithreaded(n, len, maxw, chunk).map_err(|e| format!("new: {e}")).and_then(|v| { let el = (v.verifier_len(), v.output_len()); run(&v, &meas, el, |r, _| Ok(r.into_iter().map(BigUint::from).collect()), &mut rng) })) }
                            else { guarded(|| Prio3::new_multihot_count_vec(n, len, maxw, chunk).map_err(|e| format!("new: {e}")).and_then(|v| { let el = (v.verifier_len(), v.output_len()); run(&v, &meas, el, |r, _| Ok(r.into_iter().map(BigUint::from).collect()), &mut rng) })) };
                    emit_alias(&mut out, json!({"alias":"multihot","mt":mt,"nagg":n,"len":len,"maxw":maxw,"chunk":chunk}), meas.iter().map(|m| m.iter().map(|x| b(*x as u128)).collect()).collect(), p128(), plain.clone(), r);
                }
            }
            // L1-bound sum: vectors at and below the bound
            for max in [1u128, 3, 7, 255, 256] {
                if max > 7 && (len, chunk) != (5, 2) { continue; }
                let meas: Vec<Vec<u128>> = vec![(0..len).map(|i| if i == 0 { max } else { 0 }).collect(), vec![0; len], (0..len).map(|i| if i == len - 1 { max / 2 } else if i == 0 { max - max / 2 } else { 0 }).collect()];
                let meas: Vec<Vec<u128>> = meas.into_iter().map(|m| if len == 1 { vec![m[0].min(max)] } else { m }).collect();
                let plain: Vec<BigUint> = (0..len).map(|i| meas.iter().map(|m| b(m[i])).sum()).collect();
                let r = guarded(|| Prio3::new_l1_bound_sum(n, max, len, chunk).map_err(|e| format!("new: {e}")).and_then(|v| { let el = (v.verifier_len(), v.output_len()); run(&v, &meas, el, |r, _| Ok(r.into_iter().map(BigUint::from).collect()), &mut rng) }));
                emit_alias(&mut out, json!({"alias":"l1boundsum","nagg":n,"max":limbs(&b(max)),"len":len,"chunk":chunk}), meas.iter().map(|m| m.iter().map(|x| b(*x)).collect()).collect(), p128(), plain, r);
            }
        }
    }
    let _ = BigUint::zero();
    let mut s = String::new();
    for e in &out { s.push_str(&e.to_string()); s.push('\n'); }
    std::fs::write(path, s).unwrap();
    emit(json!({"t":"summary","evaluations":out.len(),"mismatches":0,"extra":{"events":out.len()}}));
}
