#![allow(unused_imports, dead_code, clippy::all)]
//! prio-conform: conformance harness binding the TLA+ specifications in /verif/spec to the real
//! libprio-rs code. It contains no reference implementation of any property: it either *replays*
//! behaviours computed by TLC against the public API (comparing observable results with the
//! model's), or *records* traces of real executions that TLC then validates against the spec.
//!
//! Output protocol (stdout, one JSON object per line):
//!   {"t":"mismatch","case":<stable id>, ...}   a disagreement between model and implementation
//!   {"t":"sample", ...}                         an example of what was executed
//!   {"t":"summary","evaluations":N, ...}        totals
use std::io::BufRead;

mod util;
mod c06;
mod c07;
mod c09;
mod circuits;
mod alias;
mod c05;
mod c10;
mod c11;
mod c12;
mod recxof;
mod prio3rec;
mod poplar1rec;
mod c13;
mod c14;
mod c15;
mod c16;
mod c19;
mod c20;

#[global_allocator]
static GLOBAL: c07::Counting = c07::Counting;

fn main() {
    let args: Vec<String> = std::env::args().skip(1).collect();
    if args.len() < 2 {
        eprintln!("usage: prio-conform <property> <mode> [args..]");
        std::process::exit(2);
    }
    // panics inside the code under test are data, reported per case by catch_unwind; silence the
    // default hook's backtrace noise but keep the message available on stderr when asked for
    if std::env::var("CONFORM_PANIC_MSG").is_err() {
        std::panic::set_hook(Box::new(|_| {}));
    }
    if let Ok(l) = std::env::var("CONFORM_ALLOC_LIMIT") {
        c07::set_limit(l.parse().expect("CONFORM_ALLOC_LIMIT"));
    }
    let rest = &args[2..];
    match (args[0].as_str(), args[1].as_str()) {
        ("c09", "replay") => c09::replay(stdin_lines()),
        ("c09", "params") => c09::params(),
        ("c09", "record") => c09::record(rest),
        ("c05", "replay") => c05::replay(stdin_lines()),
        ("c20", "replay") => c20::replay(stdin_lines()),
        ("c13", "replay") => c13::replay(rest, stdin_lines()),
        ("prio3", "record") => prio3rec::record(rest, stdin_lines()),
        ("c10", "replay") => c10::replay(stdin_lines()),
        ("c10", "big") => c10::big_verdicts(stdin_lines()),
        ("c11", "prng") => c11::prng(stdin_lines()),
        ("c11", "xof") => c11::xof(rest, stdin_lines()),
        ("c07", "replay") => c07::replay(stdin_lines()),
        ("c07", "fuzz") => c07::fuzz(rest, stdin_lines()),
        ("c16", "run") => c16::run(stdin_lines()),
        ("c19", "record") => c19::record(rest),
        ("c06", "record") => c06::record(rest, stdin_lines()),
        ("poplar1", "record") => poplar1rec::record(rest),
        ("c14", "record") => c14::record(rest),
        ("c15", "replay") => c15::replay(stdin_lines()),
        ("c12", "replay") => c12::replay(rest[0].parse().unwrap(), stdin_lines()),
        ("c01", "alias") => alias::record(rest),
        ("c12", "real") => c12::replay_real(rest[0].parse().unwrap(), rest[1].parse().unwrap(), stdin_lines()),
        (p, m) => {
            eprintln!("unknown property/mode {p} {m}");
            std::process::exit(2);
        }
    }
}

pub fn stdin_lines() -> impl Iterator<Item = String> {
    std::io::stdin().lock().lines().map(|l| l.expect("stdin")).filter(|l| !l.trim().is_empty())
}
