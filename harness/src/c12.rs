//! C12: replay of every behaviour of spec/PingPong.tla through the real ping-pong topology, over an
//! instrumented, order- and round-sensitive VDAF built from the public Vdaf/Aggregator traits.
use prio::codec::{CodecError, Decode, Encode, ParameterizedDecode};
use prio::topology::ping_pong::{Continued, PingPongError, PingPongMessage, PingPongState, PingPongTopology, PingPongContinuation};
use prio::vdaf::{self, Aggregatable, VdafError, VerifyTransition};
use serde_json::Value;
use std::io::{BufRead, Cursor, Read};

#[derive(Clone, Debug)] struct Inst { rounds: u8 }
#[derive(Clone, Debug, PartialEq, Eq)] struct AP(u8);
#[derive(Clone, Debug, PartialEq, Eq)] struct IS(u8);
#[derive(Clone, Debug, PartialEq, Eq)] struct OS(u8);
#[derive(Clone, Debug, PartialEq, Eq)] struct AS(u64);
#[derive(Clone, Debug, PartialEq, Eq)] struct St { j: u8, r: u8 }
#[derive(Clone, Debug, PartialEq, Eq)] struct Sh { j: u8, r: u8 }
#[derive(Clone, Debug, PartialEq, Eq)] struct Msg { r: u8, a: Sh, b: Sh }
fn rd(b: &mut Cursor<&[u8]>) -> Result<u8, CodecError> { let mut x = [0u8; 1]; b.read_exact(&mut x)?; Ok(x[0]) }
macro_rules! byte_codec { ($t:ident) => {
    impl Encode for $t { fn encode(&self, b: &mut Vec<u8>) -> Result<(), CodecError> { b.push(self.0 as u8); Ok(()) } fn encoded_len(&self) -> Option<usize> { Some(1) } }
    impl Decode for $t { fn decode(b: &mut Cursor<&[u8]>) -> Result<Self, CodecError> { Ok($t(rd(b)? as _)) } }
} }
byte_codec!(AP); byte_codec!(IS); byte_codec!(OS); byte_codec!(AS);
impl Encode for St { fn encode(&self, b: &mut Vec<u8>) -> Result<(), CodecError> { b.extend([self.j, self.r]); Ok(()) } fn encoded_len(&self) -> Option<usize> { Some(2) } }
impl Decode for St { fn decode(b: &mut Cursor<&[u8]>) -> Result<Self, CodecError> { Ok(St { j: rd(b)?, r: rd(b)? }) } }
impl Encode for Sh { fn encode(&self, b: &mut Vec<u8>) -> Result<(), CodecError> { b.extend([0x53, self.j, self.r]); Ok(()) } fn encoded_len(&self) -> Option<usize> { Some(3) } }
impl Decode for Sh { fn decode(b: &mut Cursor<&[u8]>) -> Result<Self, CodecError> { if rd(b)? != 0x53 { return Err(CodecError::UnexpectedValue); } Ok(Sh { j: rd(b)?, r: rd(b)? }) } }
impl Encode for Msg { fn encode(&self, b: &mut Vec<u8>) -> Result<(), CodecError> { b.extend([0x4d, self.r]); self.a.encode(b)?; self.b.encode(b) } fn encoded_len(&self) -> Option<usize> { Some(8) } }
impl Decode for Msg { fn decode(b: &mut Cursor<&[u8]>) -> Result<Self, CodecError> { if rd(b)? != 0x4d { return Err(CodecError::UnexpectedValue); } Ok(Msg { r: rd(b)?, a: Sh::decode(b)?, b: Sh::decode(b)? }) } }
impl Aggregatable for AS { type OutputShare = OS; fn merge(&mut self, o: &Self) -> Result<(), VdafError> { self.0 += o.0; Ok(()) } fn accumulate(&mut self, o: &OS) -> Result<(), VdafError> { self.0 += o.0 as u64; Ok(()) } }
impl From<OS> for AS { fn from(o: OS) -> Self { AS(o.0 as u64) } }
impl vdaf::Vdaf for Inst {
    type Measurement = u8; type AggregateResult = u64; type AggregationParam = AP; type PublicShare = ();
    type InputShare = IS; type OutputShare = OS; type AggregateShare = AS;
    fn algorithm_id(&self) -> u32 { 0xFFFF0001 } fn num_aggregators(&self) -> usize { 2 }
}
impl vdaf::Aggregator<0, 16> for Inst {
    type VerifyState = St; type VerifierShare = Sh; type VerifierMessage = Msg;
    fn verify_init(&self, _: &[u8; 0], _: &[u8], agg_id: usize, _: &AP, _: &[u8; 16], _: &(), _: &IS) -> Result<(St, Sh), VdafError> {
        Ok((St { j: agg_id as u8, r: 0 }, Sh { j: agg_id as u8, r: 0 }))
    }
    fn verifier_shares_to_message<M: IntoIterator<Item = Sh>>(&self, _: &[u8], _: &AP, inputs: M) -> Result<Msg, VdafError> {
        let v: Vec<Sh> = inputs.into_iter().collect();
        if v.len() != 2 { return Err(VdafError::Uncategorized("count".into())); }
        Ok(Msg { r: v[1].r.max(v[0].r), a: v[0].clone(), b: v[1].clone() })
    }
    fn verify_next(&self, _: &[u8], st: St, m: Msg) -> Result<VerifyTransition<Self, 0, 16>, VdafError> {
        if m != (Msg { r: st.r, a: Sh { j: 0, r: st.r }, b: Sh { j: 1, r: st.r } }) { return Err(VdafError::Uncategorized("bad msg".into())); }
        if st.r + 1 == self.rounds { Ok(VerifyTransition::Finish(OS(st.j))) } else { Ok(VerifyTransition::Continue(St { j: st.j, r: st.r + 1 }, Sh { j: st.j, r: st.r + 1 })) }
    }
    fn aggregate_init(&self, _: &AP) -> AS { AS(0) }
    fn is_agg_param_valid(_: &AP, _: &[AP]) -> bool { true }
}
fn payload(v: &Value) -> Vec<u8> {
    let a = v.as_array().unwrap();
    match a[0].as_str().unwrap() {
        "G" => vec![0xff],
        "S" => vec![0x53, a[1].as_u64().unwrap() as u8, a[2].as_u64().unwrap() as u8],
        "M" => { let mut b = vec![0x4d, a[1].as_u64().unwrap() as u8]; b.extend(payload(&a[2])); b.extend(payload(&a[3])); b }
        _ => unreachable!(),
    }
}
fn msg(v: &Value) -> PingPongMessage {
    match v["k"].as_str().unwrap() {
        "initialize" => PingPongMessage::Initialize { verifier_share: payload(&v["vs"]) },
        "continue" => PingPongMessage::Continue { verifier_message: payload(&v["vm"]), verifier_share: payload(&v["vs"]) },
        "finish" => PingPongMessage::Finish { verifier_message: payload(&v["vm"]) },
        _ => unreachable!(),
    }
}
/// Every message an aggregator hands to the network goes through its wire encoding: it must encode, advertise exactly the
/// produced length, and decode back to itself.
fn wire_ok(m: &PingPongMessage) -> Result<(), String> {
    let w = m.get_encoded().map_err(|e| format!("outbound message does not encode: {e}"))?;
    if m.encoded_len() != Some(w.len()) { return Err(format!("outbound message encoded_len {:?} vs {} bytes", m.encoded_len(), w.len())); }
    match PingPongMessage::get_decoded(&w) { Ok(b) if &b == m => Ok(()), _ => Err("outbound message does not survive its wire encoding".into()) }
}
fn ekind(e: &PingPongError) -> &'static str {
    match e { PingPongError::VdafVerifyInit(_) => "VdafVerifyInit", PingPongError::VdafVerifierSharesToMessage(_) => "VdafVerifierSharesToMessage",
        PingPongError::VdafVerifyNext(_) => "VdafVerifyNext", PingPongError::CodecVerifierShare(_) => "CodecVerifierShare",
        PingPongError::CodecVerifierMessage(_) => "CodecVerifierMessage", PingPongError::PeerMessageMismatch { .. } => "PeerMessageMismatch", _ => "other" }
}
fn vs(v: &Value) -> St { let a = v.as_array().unwrap(); St { j: a[1].as_u64().unwrap() as u8, r: a[2].as_u64().unwrap() as u8 } }
type C = PingPongContinuation<0, 16, Inst>;
fn check_state(exp: &Value, got: Result<PingPongState<St, OS>, PingPongError>) -> Result<Option<St>, String> {
    match (exp["t"].as_str().unwrap(), got) {
        ("err", Err(e)) => if ekind(&e) == exp["e"].as_str().unwrap() { Ok(None) } else { Err(format!("err kind {} vs {}", ekind(&e), exp["e"])) },
        ("continued", Ok(PingPongState::Continued(Continued { message, verifier_state }))) => {
            if message != msg(&exp["msg"]) { return Err("continued msg".into()); }
            wire_ok(&message)?;
            if verifier_state != vs(&exp["vs"]) { return Err("continued state".into()); }
            Ok(Some(verifier_state)) }
        ("finished_with_outbound", Ok(PingPongState::FinishedWithOutbound { output_share, message })) => {
            if message != msg(&exp["msg"]) || output_share.0 as u64 != exp["out"][1].as_u64().unwrap() { return Err("fwo".into()); } wire_ok(&message)?; Ok(None) }
        ("output", Ok(PingPongState::Finished { output_share })) => { if output_share.0 as u64 != exp["out"][1].as_u64().unwrap() { return Err("out".into()); } Ok(None) }
        (t, g) => Err(format!("expected {t} got {:?}", g.map(|_| "ok-other").map_err(|e| ekind(&e)))),
    }
}
fn run(rounds: u8, hist: &Value) -> Result<(), String> {
    let v = Inst { rounds }; let ap = AP(0); let nonce = [0u8; 16];
    let mut l: Option<St> = None; let mut h: Option<St> = None; let mut hstarted = false;
    for (i, st) in hist.as_array().unwrap().iter().enumerate() {
        let step = |e: String| format!("step {i}: {e}");
        match st["a"].as_str().unwrap() {
            "linit" => {
                let c = v.leader_initialized(&[], b"c", &ap, &nonce, &(), &IS(0)).map_err(|e| step(ekind(&e).into()))?;
                if c.message != msg(&st["res"]["msg"]) { return Err(step("linit msg".into())); }
                wire_ok(&c.message).map_err(step)?;
                l = Some(c.verifier_state);
            }
            a => {
                let to_leader = a == "ldeliver";
                let m = msg(&st["m"]);
                let cont: Result<C, PingPongError> = if to_leader { v.leader_continued(b"c", &ap, l.clone().unwrap(), &m) }
                    else if !hstarted { v.helper_initialized(&[], b"c", &ap, &nonce, &(), &IS(0), &m) }
                    else { v.helper_continued(b"c", &ap, h.clone().unwrap(), &m) };
                let exp_c = &st["cont"];
                let res = match (exp_c["t"].as_str().unwrap(), cont) {
                    ("err", Err(e)) => { if ekind(&e) != exp_c["e"].as_str().unwrap() { return Err(step(format!("cont err kind {} vs {}", ekind(&e), exp_c["e"]))); } Err(e) }
                    ("err", Ok(_)) => return Err(step("expected continuation error".into())),
                    (_, Err(e)) => return Err(step(format!("unexpected continuation error {}", ekind(&e)))),
                    (t, Ok(c)) => {
                        let r1 = c.evaluate(b"c", &v);
                        if t == "transition" {
                            // persist / reload / evaluate again
                            let enc = c.get_encoded().map_err(|_| step("encode continuation".into()))?;
                            let c2 = C::get_decoded_with_param(&(), &enc).map_err(|_| step("decode continuation".into()))?;
                            if c2 != c { return Err(step("reloaded continuation differs".into())); }
                            let r2 = c2.evaluate(b"c", &v);
                            match (&r1, &r2) { (Ok(a), Ok(b)) if a == b => {}, (Err(a), Err(b)) if ekind(a) == ekind(b) => {}, _ => return Err(step("re-evaluation differs".into())) }
                        } else if c.get_encoded().is_ok() { return Err(step("output continuation encoded".into())); }
                        r1
                    }
                };
                let ns = check_state(&st["res"], res).map_err(step)?;
                let is_err = st["res"]["t"] == "err";
                if !is_err {
                    if to_leader { l = ns; } else { h = ns; hstarted = true; }
                }
            }
        }
    }
    Ok(())
}
pub fn replay(rounds: u8, lines: impl Iterator<Item = String>) {
    let mut tl = crate::util::Tally::new();
    for line in lines {
        let hist: Value = serde_json::from_str(&line).unwrap();
        tl.evaluations += 1;
        match crate::util::guarded(|| run(rounds, &hist)) {
            Ok(Ok(())) => {}
            Ok(Err(e)) => {
                // case id: the failing action kind and the disagreement, not the step number
                let what = e.splitn(2, ": ").nth(1).unwrap_or(&e).to_string();
                tl.mismatch(&format!("pingpong/R{rounds}/{}", what.split_whitespace().take(4).collect::<Vec<_>>().join("_")), serde_json::json!({"error": e, "history": hist}));
            }
            Err(p) => tl.mismatch(&format!("pingpong/R{rounds}/panic"), serde_json::json!({"panic": p, "history": hist})),
        }
        if tl.evaluations % 5000 == 1 {
            tl.sample(serde_json::json!({"rounds": rounds, "history": hist}));
        }
    }
    tl.finish(serde_json::json!({"rounds": rounds}));
}


// ---------------------------------------------------------------------------------------------
// The same PingPong.tla behaviours over the shipped VDAFs (Prio3: one round; Poplar1: two rounds).
// Abstract payloads are mapped to the bytes of an honest broadcast execution: S(j, r) = aggregator j's
// round-r verifier share, GoodM(r) = the round-r verifier message, G = an undecodable byte. Expected from
// the model: whether the delivery is refused, the next state, the outbound message and the released
// output share (which must be the broadcast execution's). Error kinds are compared for
// PeerMessageMismatch only (a real VDAF may refuse a bad share earlier than the abstract one does).
// ---------------------------------------------------------------------------------------------
struct Tables { s: Vec<Vec<Vec<u8>>>, m: Vec<Vec<u8>>, st: Vec<Vec<Vec<u8>>>, out: Vec<Vec<u8>> }
impl Tables {
    fn payload(&self, v: &Value) -> Result<Vec<u8>, String> {
        let a = v.as_array().unwrap();
        match a[0].as_str().unwrap() {
            "G" => Ok(vec![0xff]),
            "S" => Ok(self.s[a[1].as_u64().unwrap() as usize][a[2].as_u64().unwrap() as usize].clone()),
            "M" => {
                let r = a[1].as_u64().unwrap() as usize;
                let good = a[2] == serde_json::json!(["S", 0, r]) && a[3] == serde_json::json!(["S", 1, r]);
                if good { Ok(self.m[r].clone()) } else { Err("a verifier message built from out-of-place shares reached the wire".into()) }
            }
            _ => unreachable!(),
        }
    }
    fn msg(&self, v: &Value) -> Result<PingPongMessage, String> {
        Ok(match v["k"].as_str().unwrap() {
            "initialize" => PingPongMessage::Initialize { verifier_share: self.payload(&v["vs"])? },
            "continue" => PingPongMessage::Continue { verifier_message: self.payload(&v["vm"])?, verifier_share: self.payload(&v["vs"])? },
            _ => PingPongMessage::Finish { verifier_message: self.payload(&v["vm"])? },
        })
    }
}

fn reload<A, const VK: usize, P>(_like: &PingPongContinuation<VK, 16, A>, param: &P, enc: &[u8]) -> Result<PingPongContinuation<VK, 16, A>, CodecError>
where A: vdaf::Aggregator<VK, 16>, A::VerifyState: ParameterizedDecode<P> {
    PingPongContinuation::<VK, 16, A>::get_decoded_with_param(param, enc)
}

macro_rules! real_replay {
    ($name:expr, $v:expr, $vk:expr, $key:expr, $ctx:expr, $ap:expr, $nonce:expr, $public:expr, $shares:expr, $rounds:expr, $hists:expr, $tl:expr) => {{
        let v = &$v; let key = &$key; let ctx: &[u8] = $ctx; let ap = &$ap; let nonce = &$nonce; let public = &$public; let shares = &$shares;
        let rounds: usize = $rounds;
        // honest broadcast execution
        let tables = crate::util::guarded(|| {
            let mut t = Tables { s: vec![vec![], vec![]], m: vec![], st: vec![vec![], vec![]], out: vec![vec![], vec![]] };
            let mut states = Vec::new();
            let mut cur = Vec::new();
            for j in 0..2usize {
                let (st, sh) = v.verify_init(key, ctx, j, ap, nonce, public, &shares[j]).expect("honest verify_init");
                t.st[j].push(st.get_encoded().unwrap()); t.s[j].push(sh.get_encoded().unwrap());
                states.push(st); cur.push(sh);
            }
            for r in 0..rounds {
                let m = v.verifier_shares_to_message(ctx, ap, cur.clone()).expect("honest s2m");
                t.m.push(m.get_encoded().unwrap());
                let mut next_states = Vec::new(); let mut next = Vec::new();
                for j in 0..2usize {
                    match v.verify_next(ctx, states[j].clone(), m.clone()).expect("honest verify_next") {
                        VerifyTransition::Continue(st, sh) => { t.st[j].push(st.get_encoded().unwrap()); t.s[j].push(sh.get_encoded().unwrap()); next_states.push(st); next.push(sh); }
                        VerifyTransition::Finish(o) => { assert_eq!(r + 1, rounds, "finished early"); t.out[j] = o.get_encoded().unwrap(); }
                    }
                }
                if r + 1 < rounds { assert_eq!(next.len(), 2, "round count"); }
                states = next_states; cur = next;
            }
            t
        });
        let tables = match tables { Ok(t) => Some(t), Err(p) => { $tl.mismatch(&format!("pingpong/{}/broadcast_panic", $name), serde_json::json!({"panic": p})); None } };
        if let Some(t) = tables {
            for hist in $hists.iter() {
                $tl.evaluations += 1;
                let r = crate::util::guarded(|| -> Result<(), String> {
                    let mut l = None; let mut h = None; let mut hstarted = false;
                    for (i, st) in hist.as_array().unwrap().iter().enumerate() {
                        let step = |e: String| format!("step {i}: {e}");
                        match st["a"].as_str().unwrap() {
                            "linit" => {
                                let c = v.leader_initialized(key, ctx, ap, nonce, public, &shares[0]).map_err(|e| step(ekind(&e).into()))?;
                                if c.message != t.msg(&st["res"]["msg"]).map_err(step)? { return Err(step("linit msg".into())); }
                                wire_ok(&c.message).map_err(step)?;
                                if c.verifier_state.get_encoded().unwrap() != t.st[0][0] { return Err(step("linit state".into())); }
                                l = Some(c.verifier_state);
                            }
                            a => {
                                let to_leader = a == "ldeliver";
                                let m = t.msg(&st["m"]).map_err(step)?;
                                let cont = if to_leader { v.leader_continued(ctx, ap, l.clone().unwrap(), &m) }
                                    else if !hstarted { v.helper_initialized(key, ctx, ap, nonce, public, &shares[1], &m) }
                                    else { v.helper_continued(ctx, ap, h.clone().unwrap(), &m) };
                                let exp_c = &st["cont"]; let exp = &st["res"];
                                let host = if to_leader { 0usize } else { 1 };
                                let res = match cont {
                                    Err(e) => {
                                        if exp["t"] != "err" { return Err(step(format!("unexpected refusal {}", ekind(&e)))); }
                                        if exp_c["t"] == "err" && exp_c["e"] == "PeerMessageMismatch" && ekind(&e) != "PeerMessageMismatch" { return Err(step(format!("err kind {} vs PeerMessageMismatch", ekind(&e)))); }
                                        None
                                    }
                                    Ok(c) => {
                                        if exp_c["t"] == "err" { return Err(step("expected continuation error".into())); }
                                        let r1 = c.evaluate(ctx, v);
                                        if let Ok(enc) = Encode::get_encoded(&c) {
                                            // persist / reload / evaluate again
                                            let c2 = reload(&c, &(v, host), &enc).map_err(|_| step("decode continuation".into()))?;
                                            if c2 != c { return Err(step("reloaded continuation differs".into())); }
                                            let r2 = c2.evaluate(ctx, v);
                                            match (&r1, &r2) { (Ok(a), Ok(b)) if a == b => {}, (Err(a), Err(b)) if ekind(a) == ekind(b) => {}, _ => return Err(step("re-evaluation differs".into())) }
                                        } else if exp_c["t"] == "transition" { return Err(step("transition continuation does not encode".into())); }
                                        match r1 { Ok(s) => Some(s), Err(e) => { if exp["t"] != "err" { return Err(step(format!("unexpected evaluation error {}", ekind(&e)))); } None } }
                                    }
                                };
                                match (exp["t"].as_str().unwrap(), res) {
                                    ("err", None) => {}
                                    ("err", Some(_)) => return Err(step("out-of-place message accepted".into())),
                                    ("continued", Some(PingPongState::Continued(Continued { message, verifier_state }))) => {
                                        if message != t.msg(&exp["msg"]).map_err(step)? { return Err(step("continued msg".into())); }
                                        wire_ok(&message).map_err(step)?;
                                        let r = exp["vs"][2].as_u64().unwrap() as usize;
                                        if verifier_state.get_encoded().unwrap() != t.st[host][r] { return Err(step("continued state".into())); }
                                        if to_leader { l = Some(verifier_state); } else { h = Some(verifier_state); hstarted = true; }
                                    }
                                    ("finished_with_outbound", Some(PingPongState::FinishedWithOutbound { output_share, message })) => {
                                        if message != t.msg(&exp["msg"]).map_err(step)? { return Err(step("fwo msg".into())); }
                                        wire_ok(&message).map_err(step)?;
                                        if output_share.get_encoded().unwrap() != t.out[host] { return Err(step("fwo output share differs from broadcast".into())); }
                                        if to_leader { l = None; } else { h = None; hstarted = true; }
                                    }
                                    ("output", Some(PingPongState::Finished { output_share })) => {
                                        if output_share.get_encoded().unwrap() != t.out[host] { return Err(step("output share differs from broadcast".into())); }
                                        if to_leader { l = None; } else { h = None; hstarted = true; }
                                    }
                                    (tt, Some(_)) => return Err(step(format!("expected {tt}, got another state"))),
                                    (tt, None) => return Err(step(format!("expected {tt}, got a refusal"))),
                                }
                            }
                        }
                    }
                    Ok(())
                });
                match r {
                    Ok(Ok(())) => {}
                    Ok(Err(e)) => { let what = e.splitn(2, ": ").nth(1).unwrap_or(&e).to_string();
                        $tl.mismatch(&format!("pingpong/{}/{}", $name, what.split_whitespace().take(4).collect::<Vec<_>>().join("_")), serde_json::json!({"error": e, "history": hist})); }
                    Err(p) => $tl.mismatch(&format!("pingpong/{}/panic", $name), serde_json::json!({"panic": p, "history": hist})),
                }
            }
        }
    }};
}

pub fn replay_real(rounds: u8, seed: u64, lines: impl Iterator<Item = String>) {
    use prio::idpf::IdpfInput;
    use prio::vdaf::poplar1::{Poplar1, Poplar1AggregationParam};
    use prio::vdaf::prio3::Prio3;
    use prio::vdaf::{Aggregator, Client};
    let mut tl = crate::util::Tally::new();
    let hists: Vec<Value> = lines.map(|l| serde_json::from_str(&l).unwrap()).collect();
    let mut rng = crate::util::Sm(seed);
    let nonce: [u8; 16] = rng.bytes(16).try_into().unwrap();
    let key32: [u8; 32] = rng.bytes(32).try_into().unwrap();
    if rounds == 1 {
        { let v = Prio3::new_count(2).unwrap(); let (p, s) = v.shard(b"c12", &true, &nonce).unwrap();
          real_replay!("Prio3Count", v, 32, key32, b"c12", (), nonce, p, s, 1, hists, tl); }
        { let v = Prio3::new_histogram(2, 5, 2).unwrap(); let (p, s) = v.shard(b"c12", &3usize, &nonce).unwrap();
          real_replay!("Prio3Histogram", v, 32, key32, b"c12", (), nonce, p, s, 1, hists, tl); }
        { use prio::field::Field128; use prio::flp::{gadgets::{Mul, ParallelSum}, types::SumVec}; use prio::vdaf::xof::XofTurboShake128;
          let v = Prio3::<SumVec<Field128, ParallelSum<Field128, Mul>>, XofTurboShake128, 32>::new(2, 2, 0xFFFF_1203, SumVec::new(3, 4, 3).unwrap()).unwrap();
          let (p, s) = v.shard(b"c12", &vec![1, 0, 3, 2], &nonce).unwrap();
          real_replay!("Prio3SumVecMultiproof", v, 32, key32, b"c12", (), nonce, p, s, 1, hists, tl); }
        // verifier shares above 64 KiB (chunk length 2100): the 32-bit length prefixes of the message framing
        { let v = Prio3::new_sum_vec(2, 1, 2200, 2100).unwrap(); let (p, s) = v.shard(b"c12", &vec![1u128; 2200], &nonce).unwrap();
          let few: Vec<Value> = hists.iter().step_by(9).cloned().collect();
          real_replay!("Prio3SumVecBigChunk", v, 32, key32, b"c12", (), nonce, p, s, 1, few, tl); }
    } else if rounds == 2 {
        for (name, bits, level) in [("Poplar1Inner", 4usize, 1usize), ("Poplar1Leaf", 3, 2)] {
            let v = Poplar1::new_turboshake128(bits);
            let input = IdpfInput::from_bools(&(0..bits).map(|i| i % 2 == 0).collect::<Vec<_>>());
            let (p, s) = v.shard(b"c12", &input, &nonce).unwrap();
            let prefixes: Vec<IdpfInput> = vec![input.prefix(level), IdpfInput::from_bools(&(0..=level).map(|_| true).collect::<Vec<_>>())];
            let mut prefixes = prefixes; prefixes.sort(); prefixes.dedup();
            let ap = Poplar1AggregationParam::try_from_prefixes(prefixes).unwrap();
            real_replay!(name, v, 32, key32, b"c12", ap, nonce, p, s, 2, hists, tl);
        }
    }
    tl.finish(serde_json::json!({"rounds": rounds, "real": true}));
}
