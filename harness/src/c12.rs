//! C12: replay of every behaviour of spec/PingPong.tla through the real ping-pong topology, over an
//! instrumented, order- and round-sensitive VDAF built from the public Vdaf/Aggregator traits.
use prio::codec::{CodecError, Decode, Encode, ParameterizedDecode};
use prio::topology::ping_pong::{Continued, PingPongError, PingPongMessage, PingPongState, PingPongTopology, PingPongContinuation};
use prio::vdaf::{self, Aggregatable, VdafError, VerifyTransition};
use serde_json::Value;
use std::io::{BufRead, Cursor, Read};

#[derive(Clone, Debug)] struct Inst { rounds: u8 }
#[derive(Clone, Debug, PartialEq, Eq)] struct AP(u8);
#[derive(Clone, Debug, PartialEq, Eq)] struct IS(u8);
#[derive(Clone, Debug, PartialEq, Eq)] struct OS(u8);
#[derive(Clone, Debug, PartialEq, Eq)] struct AS(u64);
#[derive(Clone, Debug, PartialEq, Eq)] struct St { j: u8, r: u8 }
#[derive(Clone, Debug, PartialEq, Eq)] struct Sh { j: u8, r: u8 }
#[derive(Clone, Debug, PartialEq, Eq)] struct Msg { r: u8, a: Sh, b: Sh }
fn rd(b: &mut Cursor<&[u8]>) -> Result<u8, CodecError> { let mut x = [0u8; 1]; b.read_exact(&mut x)?; Ok(x[0]) }
macro_rules! byte_codec { ($t:ident) => {
    impl Encode for $t { fn encode(&self, b: &mut Vec<u8>) -> Result<(), CodecError> { b.push(self.0 as u8); Ok(()) } fn encoded_len(&self) -> Option<usize> { Some(1) } }
    impl Decode for $t { fn decode(b: &mut Cursor<&[u8]>) -> Result<Self, CodecError> { Ok($t(rd(b)? as _)) } }
} }
byte_codec!(AP); byte_codec!(IS); byte_codec!(OS); byte_codec!(AS);
impl Encode for St { fn encode(&self, b: &mut Vec<u8>) -> Result<(), CodecError> { b.extend([self.j, self.r]); Ok(()) } fn encoded_len(&self) -> Option<usize> { Some(2) } }
impl Decode for St { fn decode(b: &mut Cursor<&[u8]>) -> Result<Self, CodecError> { Ok(St { j: rd(b)?, r: rd(b)? }) } }
impl Encode for Sh { fn encode(&self, b: &mut Vec<u8>) -> Result<(), CodecError> { b.extend([0x53, self.j, self.r]); Ok(()) } fn encoded_len(&self) -> Option<usize> { Some(3) } }
impl Decode for Sh { fn decode(b: &mut Cursor<&[u8]>) -> Result<Self, CodecError> { if rd(b)? != 0x53 { return Err(CodecError::UnexpectedValue); } Ok(Sh { j: rd(b)?, r: rd(b)? }) } }
impl Encode for Msg { fn encode(&self, b: &mut Vec<u8>) -> Result<(), CodecError> { b.extend([0x4d, self.r]); self.a.encode(b)?; self.b.encode(b) } fn encoded_len(&self) -> Option<usize> { Some(8) } }
impl Decode for Msg { fn decode(b: &mut Cursor<&[u8]>) -> Result<Self, CodecError> { if rd(b)? != 0x4d { return Err(CodecError::UnexpectedValue); } Ok(Msg { r: rd(b)?, a: Sh::decode(b)?, b: Sh::decode(b)? }) } }
impl Aggregatable for AS { type OutputShare = OS; fn merge(&mut self, o: &Self) -> Result<(), VdafError> { self.0 += o.0; Ok(()) } fn accumulate(&mut self, o: &OS) -> Result<(), VdafError> { self.0 += o.0 as u64; Ok(()) } }
impl From<OS> for AS { fn from(o: OS) -> Self { AS(o.0 as u64) } }
impl vdaf::Vdaf for Inst {
    type Measurement = u8; type AggregateResult = u64; type AggregationParam = AP; type PublicShare = ();
    type InputShare = IS; type OutputShare = OS; type AggregateShare = AS;
    fn algorithm_id(&self) -> u32 { 0xFFFF0001 } fn num_aggregators(&self) -> usize { 2 }
}
impl vdaf::Aggregator<0, 16> for Inst {
    type VerifyState = St; type VerifierShare = Sh; type VerifierMessage = Msg;
    fn verify_init(&self, _: &[u8; 0], _: &[u8], agg_id: usize, _: &AP, _: &[u8; 16], _: &(), _: &IS) -> Result<(St, Sh), VdafError> {
        Ok((St { j: agg_id as u8, r: 0 }, Sh { j: agg_id as u8, r: 0 }))
    }
    fn verifier_shares_to_message<M: IntoIterator<Item = Sh>>(&self, _: &[u8], _: &AP, inputs: M) -> Result<Msg, VdafError> {
        let v: Vec<Sh> = inputs.into_iter().collect();
        if v.len() != 2 { return Err(VdafError::Uncategorized("count".into())); }
        Ok(Msg { r: v[1].r.max(v[0].r), a: v[0].clone(), b: v[1].clone() })
    }
    fn verify_next(&self, _: &[u8], st: St, m: Msg) -> Result<VerifyTransition<Self, 0, 16>, VdafError> {
        if m != (Msg { r: st.r, a: Sh { j: 0, r: st.r }, b: Sh { j: 1, r: st.r } }) { return Err(VdafError::Uncategorized("bad msg".into())); }
        if st.r + 1 == self.rounds { Ok(VerifyTransition::Finish(OS(st.j))) } else { Ok(VerifyTransition::Continue(St { j: st.j, r: st.r + 1 }, Sh { j: st.j, r: st.r + 1 })) }
    }
    fn aggregate_init(&self, _: &AP) -> AS { AS(0) }
    fn is_agg_param_valid(_: &AP, _: &[AP]) -> bool { true }
}
fn payload(v: &Value) -> Vec<u8> {
    let a = v.as_array().unwrap();
    match a[0].as_str().unwrap() {
        "G" => vec![0xff],
        "S" => vec![0x53, a[1].as_u64().unwrap() as u8, a[2].as_u64().unwrap() as u8],
        "M" => { let mut b = vec![0x4d, a[1].as_u64().unwrap() as u8]; b.extend(payload(&a[2])); b.extend(payload(&a[3])); b }
        _ => unreachable!(),
    }
}
fn msg(v: &Value) -> PingPongMessage {
    match v["k"].as_str().unwrap() {
        "initialize" => PingPongMessage::Initialize { verifier_share: payload(&v["vs"]) },
        "continue" => PingPongMessage::Continue { verifier_message: payload(&v["vm"]), verifier_share: payload(&v["vs"]) },
        "finish" => PingPongMessage::Finish { verifier_message: payload(&v["vm"]) },
        _ => unreachable!(),
    }
}
fn ekind(e: &PingPongError) -> &'static str {
    match e { PingPongError::VdafVerifyInit(_) => "VdafVerifyInit", PingPongError::VdafVerifierSharesToMessage(_) => "VdafVerifierSharesToMessage",
        PingPongError::VdafVerifyNext(_) => "VdafVerifyNext", PingPongError::CodecVerifierShare(_) => "CodecVerifierShare",
        PingPongError::CodecVerifierMessage(_) => "CodecVerifierMessage", PingPongError::PeerMessageMismatch { .. } => "PeerMessageMismatch", _ => "other" }
}
fn vs(v: &Value) -> St { let a = v.as_array().unwrap(); St { j: a[1].as_u64().unwrap() as u8, r: a[2].as_u64().unwrap() as u8 } }
type C = PingPongContinuation<0, 16, Inst>;
fn check_state(exp: &Value, got: Result<PingPongState<St, OS>, PingPongError>) -> Result<Option<St>, String> {
    match (exp["t"].as_str().unwrap(), got) {
        ("err", Err(e)) => if ekind(&e) == exp["e"].as_str().unwrap() { Ok(None) } else { Err(format!("err kind {} vs {}", ekind(&e), exp["e"])) },
        ("continued", Ok(PingPongState::Continued(Continued { message, verifier_state }))) => {
            if message != msg(&exp["msg"]) { return Err("continued msg".into()); }
            if verifier_state != vs(&exp["vs"]) { return Err("continued state".into()); }
            Ok(Some(verifier_state)) }
        ("finished_with_outbound", Ok(PingPongState::FinishedWithOutbound { output_share, message })) => {
            if message != msg(&exp["msg"]) || output_share.0 as u64 != exp["out"][1].as_u64().unwrap() { return Err("fwo".into()); } Ok(None) }
        ("output", Ok(PingPongState::Finished { output_share })) => { if output_share.0 as u64 != exp["out"][1].as_u64().unwrap() { return Err("out".into()); } Ok(None) }
        (t, g) => Err(format!("expected {t} got {:?}", g.map(|_| "ok-other").map_err(|e| ekind(&e)))),
    }
}
fn run(rounds: u8, hist: &Value) -> Result<(), String> {
    let v = Inst { rounds }; let ap = AP(0); let nonce = [0u8; 16];
    let mut l: Option<St> = None; let mut h: Option<St> = None; let mut hstarted = false;
    for (i, st) in hist.as_array().unwrap().iter().enumerate() {
        let step = |e: String| format!("step {i}: {e}");
        match st["a"].as_str().unwrap() {
            "linit" => {
                let c = v.leader_initialized(&[], b"c", &ap, &nonce, &(), &IS(0)).map_err(|e| step(ekind(&e).into()))?;
                if c.message != msg(&st["res"]["msg"]) { return Err(step("linit msg".into())); }
                l = Some(c.verifier_state);
            }
            a => {
                let to_leader = a == "ldeliver";
                let m = msg(&st["m"]);
                let cont: Result<C, PingPongError> = if to_leader { v.leader_continued(b"c", &ap, l.clone().unwrap(), &m) }
                    else if !hstarted { v.helper_initialized(&[], b"c", &ap, &nonce, &(), &IS(0), &m) }
                    else { v.helper_continued(b"c", &ap, h.clone().unwrap(), &m) };
                let exp_c = &st["cont"];
                let res = match (exp_c["t"].as_str().unwrap(), cont) {
                    ("err", Err(e)) => { if ekind(&e) != exp_c["e"].as_str().unwrap() { return Err(step(format!("cont err kind {} vs {}", ekind(&e), exp_c["e"]))); } Err(e) }
                    ("err", Ok(_)) => return Err(step("expected continuation error".into())),
                    (_, Err(e)) => return Err(step(format!("unexpected continuation error {}", ekind(&e)))),
                    (t, Ok(c)) => {
                        let r1 = c.evaluate(b"c", &v);
                        if t == "transition" {
                            // persist / reload / evaluate again
                            let enc = c.get_encoded().map_err(|_| step("encode continuation".into()))?;
                            let c2 = C::get_decoded_with_param(&(), &enc).map_err(|_| step("decode continuation".into()))?;
                            if c2 != c { return Err(step("reloaded continuation differs".into())); }
                            let r2 = c2.evaluate(b"c", &v);
                            match (&r1, &r2) { (Ok(a), Ok(b)) if a == b => {}, (Err(a), Err(b)) if ekind(a) == ekind(b) => {}, _ => return Err(step("re-evaluation differs".into())) }
                        } else if c.get_encoded().is_ok() { return Err(step("output continuation encoded".into())); }
                        r1
                    }
                };
                let ns = check_state(&st["res"], res).map_err(step)?;
                let is_err = st["res"]["t"] == "err";
                if !is_err {
                    if to_leader { l = ns; } else { h = ns; hstarted = true; }
                }
            }
        }
    }
    Ok(())
}
pub fn replay(rounds: u8, lines: impl Iterator<Item = String>) {
    let mut tl = crate::util::Tally::new();
    for line in lines {
        let hist: Value = serde_json::from_str(&line).unwrap();
        tl.evaluations += 1;
        match crate::util::guarded(|| run(rounds, &hist)) {
            Ok(Ok(())) => {}
            Ok(Err(e)) => {
                // case id: the failing action kind and the disagreement, not the step number
                let what = e.splitn(2, ": ").nth(1).unwrap_or(&e).to_string();
                tl.mismatch(&format!("pingpong/R{rounds}/{}", what.split_whitespace().take(4).collect::<Vec<_>>().join("_")), serde_json::json!({"error": e, "history": hist}));
            }
            Err(p) => tl.mismatch(&format!("pingpong/R{rounds}/panic"), serde_json::json!({"panic": p, "history": hist})),
        }
        if tl.evaluations % 5000 == 1 {
            tl.sample(serde_json::json!({"rounds": rounds, "history": hist}));
        }
    }
    tl.finish(serde_json::json!({"rounds": rounds}));
}
