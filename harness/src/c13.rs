//! C13: replay of every aggregation script of spec/Aggregation.tla (partition into partial
//! aggregates, accumulate order, merge tree, refused shares) on the real aggregate-share types.
use crate::util::*;
use prio::codec::Encode;
use prio::field::{Field128, Field255, Field64, FieldElement, FieldPrio2, FieldV17};
use prio::flp::gadgets::{Mul, ParallelSum};
use prio::flp::types::Histogram;
use prio::idpf::IdpfInput;
use prio::vdaf::poplar1::{Poplar1, Poplar1AggregationParam, Poplar1FieldVec};
use prio::vdaf::prio2::Prio2;
use prio::flp::types::SumVec;
use prio::vdaf::prio3::{Prio3, Prio3Histogram};
use prio::vdaf::xof::XofTurboShake128;
use prio::vdaf::{Aggregatable, AggregateShare, Aggregator, OutputShare};
use serde_json::{json, Value};

fn el<F: FieldElement + From<u64>>(v: i64) -> F {
    if v >= 0 { F::from(v as u64) } else { -F::from((-v) as u64) }
}
fn el32(v: i64) -> FieldPrio2 {
    if v >= 0 { FieldPrio2::from(v as u32) } else { -FieldPrio2::from((-v) as u32) }
}
fn el17(v: i64) -> FieldV17 {
    if v >= 0 { FieldV17::from(v as u32) } else { -FieldV17::from((-v) as u32) }
}
fn el128(v: i64) -> Field128 {
    if v >= 0 { Field128::from(v as u128) } else { -Field128::from((-v) as u128) }
}
fn ivec(v: &Value) -> Vec<i64> {
    v.as_array().unwrap().iter().map(|x| x.as_i64().unwrap()).collect()
}

trait Target {
    type Agg: Aggregatable<OutputShare = Self::Out> + Encode;
    type Out;
    const NAME: &'static str;
    fn init(&self, l: usize) -> Self::Agg;
    fn out(&self, kind: &str, v: &[i64]) -> Self::Out;
    fn expect_enc(&self, v: &[i64]) -> Vec<u8>;
}
macro_rules! vec_target {
    ($name:ident, $label:expr, $f:ty, $el:expr, $init:expr) => {
        struct $name;
        impl Target for $name {
            type Agg = AggregateShare<$f>;
            type Out = OutputShare<$f>;
            const NAME: &'static str = $label;
            fn init(&self, l: usize) -> Self::Agg {
                $init(l)
            }
            fn out(&self, _kind: &str, v: &[i64]) -> Self::Out {
                OutputShare::from(v.iter().map(|x| $el(*x)).collect::<Vec<$f>>())
            }
            fn expect_enc(&self, v: &[i64]) -> Vec<u8> {
                let mut b = Vec::new();
                for x in v {
                    $el(*x).encode(&mut b).unwrap();
                }
                b
            }
        }
    };
}
vec_target!(T17, "AggregateShare<FieldV17>/Prio3Histogram", FieldV17, el17, |l: usize| {
    Prio3::<Histogram<FieldV17, ParallelSum<FieldV17, Mul>>, XofTurboShake128, 32>::new(2, 1, 0xffff0001, Histogram::new(l, 1).unwrap())
        .unwrap()
        .aggregate_init(&())
});
vec_target!(T128, "AggregateShare<Field128>/Prio3Histogram", Field128, el128, |l: usize| Prio3Histogram::new_histogram(2, l, 2).unwrap().aggregate_init(&()));
vec_target!(T64, "AggregateShare<Field64>/Prio3SumVecField64", Field64, el::<Field64>, |l: usize| {
    Prio3::<SumVec<Field64, ParallelSum<Field64, Mul>>, XofTurboShake128, 32>::new(2, 2, 0xffff0002, SumVec::new(1, l, 2).unwrap())
        .unwrap()
        .aggregate_init(&())
});
vec_target!(T32, "AggregateShare<FieldPrio2>/Prio2", FieldPrio2, el32, |l: usize| Prio2::new(l).unwrap().aggregate_init(&()));

struct TPoplar {
    leaf: bool,
}
impl TPoplar {
    fn is_leaf_kind(&self, kind: &str) -> bool {
        // the model's Kind is "inner"; for the leaf target the two kinds swap roles
        (kind == "leaf") != self.leaf
    }
    fn mk(&self, leaf: bool, v: &[i64]) -> Poplar1FieldVec {
        if leaf {
            Poplar1FieldVec::Leaf(v.iter().map(|x| el::<Field255>(*x)).collect())
        } else {
            Poplar1FieldVec::Inner(v.iter().map(|x| el::<Field64>(*x)).collect())
        }
    }
}
impl Target for TPoplar {
    type Agg = Poplar1FieldVec;
    type Out = Poplar1FieldVec;
    const NAME: &'static str = "Poplar1FieldVec";
    fn init(&self, l: usize) -> Poplar1FieldVec {
        let bits = 4usize;
        let vdaf = Poplar1::<XofTurboShake128, 32>::new(bits);
        let level = if self.leaf { bits - 1 } else { 1 };
        let prefixes: Vec<IdpfInput> = (0..l).map(|i| IdpfInput::from_bools(&(0..=level).map(|b| (i >> (level - b)) & 1 == 1).collect::<Vec<_>>())).collect();
        vdaf.aggregate_init(&Poplar1AggregationParam::try_from_prefixes(prefixes).unwrap())
    }
    fn out(&self, kind: &str, v: &[i64]) -> Poplar1FieldVec {
        self.mk(self.is_leaf_kind(kind), v)
    }
    fn expect_enc(&self, v: &[i64]) -> Vec<u8> {
        self.mk(self.leaf, v).get_encoded().unwrap()
    }
}

fn run<T: Target>(t: &T, label: &str, shares: &Value, bad: &Value, l: usize, script: &Value, tl: &mut Tally) {
    let mut accs: Vec<Option<T::Agg>> = Vec::new();
    let case = |w: &str| format!("aggregation/{label}/{w}");
    for (k, op) in script["hist"].as_array().unwrap().iter().enumerate() {
        let a = op["acc"].as_u64().unwrap() as usize - 1;
        let name = op["op"].as_str().unwrap();
        let res: Result<Result<(), String>, String> = match name {
            "init" => {
                accs.push(Some(t.init(l)));
                Ok(Ok(()))
            }
            "accumulate" | "bad_accumulate" => {
                let sh = if name == "accumulate" { &shares[op["share"].as_u64().unwrap() as usize - 1] } else { &bad[op["bad"].as_u64().unwrap() as usize - 1] };
                let o = t.out(sh["kind"].as_str().unwrap(), &ivec(&sh["vec"]));
                let acc = accs[a].as_mut().unwrap();
                guarded(|| acc.accumulate(&o).map_err(|e| e.to_string()))
            }
            "merge" => {
                let b = op["from"].as_u64().unwrap() as usize - 1;
                let other = accs[b].take().unwrap();
                let acc = accs[a].as_mut().unwrap();
                guarded(|| acc.merge(&other).map_err(|e| e.to_string()))
            }
            "bad_merge" => {
                let sh = &bad[op["bad"].as_u64().unwrap() as usize - 1];
                let other = T::Agg::from(t.out(sh["kind"].as_str().unwrap(), &ivec(&sh["vec"])));
                let acc = accs[a].as_mut().unwrap();
                guarded(|| acc.merge(&other).map_err(|e| e.to_string()))
            }
            _ => unreachable!(),
        };
        let ok = op["ok"].as_bool().unwrap();
        match &res {
            Ok(Ok(())) if ok => {}
            Ok(Err(_)) if !ok => {}
            other => {
                tl.mismatch(&case(&format!("{name}_verdict")), json!({"step": k, "op": op, "expected_ok": ok, "got": format!("{other:?}"), "script": script["hist"]}));
                return;
            }
        }
        // the accumulator holds exactly what the model says (unchanged after a refused operation)
        let got = accs[a].as_ref().unwrap().get_encoded().unwrap();
        if got != t.expect_enc(&ivec(&op["expect"])) {
            tl.mismatch(&case(&format!("{name}_value")), json!({"step": k, "op": op, "script": script["hist"]}));
            return;
        }
    }
}

pub fn replay(args: &[String], lines: impl Iterator<Item = String>) {
    // args: <family> <config.json>  with config = {"shares":[..],"bad":[..],"L":n}
    let family = args[0].as_str();
    let cfg: Value = serde_json::from_str(&std::fs::read_to_string(&args[1]).unwrap()).unwrap();
    let (shares, bad, l) = (&cfg["shares"], &cfg["bad"], cfg["L"].as_u64().unwrap() as usize);
    let mut tl = Tally::new();
    for line in lines {
        let script: Value = serde_json::from_str(&line).unwrap();
        match family {
            "p17" => {
                tl.evaluations += 1;
                run(&T17, T17::NAME, shares, bad, l, &script, &mut tl);
            }
            "z" => {
                tl.evaluations += 3;
                run(&T128, T128::NAME, shares, bad, l, &script, &mut tl);
                run(&T64, T64::NAME, shares, bad, l, &script, &mut tl);
                run(&T32, T32::NAME, shares, bad, l, &script, &mut tl);
            }
            "poplar" => {
                tl.evaluations += 2;
                run(&TPoplar { leaf: false }, "Poplar1FieldVec::Inner", shares, bad, l, &script, &mut tl);
                run(&TPoplar { leaf: true }, "Poplar1FieldVec::Leaf", shares, bad, l, &script, &mut tl);
            }
            _ => panic!("family"),
        }
        if tl.evaluations % 100000 < 3 {
            tl.sample(json!({"family": family, "script": script["hist"]}));
        }
    }
    tl.finish(json!({"family": family}));
}
