//! Shared helpers: output protocol, deterministic RNG, limb conversion, panic capture.
use num_bigint::BigUint;
use serde_json::{json, Value};
use std::io::Write;
use std::panic::{catch_unwind, AssertUnwindSafe};

pub fn emit(v: Value) {
    let out = std::io::stdout();
    let mut l = out.lock();
    writeln!(l, "{v}").unwrap();
}

pub struct Tally {
    pub evaluations: u64,
    pub mismatches: u64,
    samples: usize,
    seen: std::collections::HashSet<String>,
}

impl Tally {
    pub fn new() -> Self {
        Tally { evaluations: 0, mismatches: 0, samples: 0, seen: Default::default() }
    }
    /// Reports a mismatch; at most 3 records per case id are printed in full.
    pub fn mismatch(&mut self, case: &str, detail: Value) {
        self.mismatches += 1;
        let n = self.seen.iter().filter(|c| c.starts_with(case) && c.len() == case.len() + 2).count();
        if n < 3 {
            self.seen.insert(format!("{case}#{n}"));
            emit(json!({"t": "mismatch", "case": case, "detail": detail}));
        }
    }
    pub fn sample(&mut self, v: Value) {
        if self.samples < 4 {
            self.samples += 1;
            emit(json!({"t": "sample", "v": v}));
        }
    }
    pub fn finish(self, extra: Value) {
        emit(json!({"t": "summary", "evaluations": self.evaluations, "mismatches": self.mismatches, "extra": extra}));
    }
}

/// Runs `f`, turning a panic of the code under test into `Err(message)`.
pub fn guarded<T>(f: impl FnOnce() -> T) -> Result<T, String> {
    catch_unwind(AssertUnwindSafe(f)).map_err(|e| {
        if let Some(s) = e.downcast_ref::<&str>() {
            s.to_string()
        } else if let Some(s) = e.downcast_ref::<String>() {
            s.clone()
        } else {
            "panic".to_string()
        }
    })
}

/// Little-endian base-2^12 limbs (the BigNat.tla representation).
pub fn limbs(n: &BigUint) -> Value {
    let mut out = Vec::new();
    let mut bits = Vec::new();
    for b in n.to_bytes_le() {
        for i in 0..8 {
            bits.push((b >> i) & 1);
        }
    }
    for c in bits.chunks(12) {
        let mut v = 0u32;
        for (i, b) in c.iter().enumerate() {
            v |= (*b as u32) << i;
        }
        out.push(v);
    }
    while out.last() == Some(&0) {
        out.pop();
    }
    json!(out)
}

/// splitmix64: small deterministic generator for operand choice (never an oracle).
pub struct Sm(pub u64);
impl Sm {
    pub fn next(&mut self) -> u64 {
        self.0 = self.0.wrapping_add(0x9E3779B97F4A7C15);
        let mut z = self.0;
        z = (z ^ (z >> 30)).wrapping_mul(0xBF58476D1CE4E5B9);
        z = (z ^ (z >> 27)).wrapping_mul(0x94D049BB133111EB);
        z ^ (z >> 31)
    }
    pub fn below(&mut self, n: u64) -> u64 {
        self.next() % n
    }
    pub fn bytes(&mut self, n: usize) -> Vec<u8> {
        (0..n).map(|_| self.next() as u8).collect()
    }
}

pub fn u64s(v: &Value) -> Vec<u64> {
    v.as_array().map(|a| a.iter().map(|x| x.as_u64().unwrap_or(0)).collect()).unwrap_or_default()
}
pub fn bytes_of(v: &Value) -> Vec<u8> {
    u64s(v).into_iter().map(|x| x as u8).collect()
}
