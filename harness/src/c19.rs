//! C19: traces of Prio2 for spec/Prio2_Trace.tla. (a) field-generic client/server routines over tiny
//! fields through hook H4; (b) the real Prio2 VDAF: outcomes under several keys, sums, codec round
//! trips, and the query-point rejection loop with squaring-chain witnesses.
use crate::c11::ScriptedRng;
use crate::circuits::*;
use crate::util::*;
use crate::with_field;
use num_bigint::BigUint;
use prio::codec::{Encode, ParameterizedDecode};
use prio::field::{FieldElement, FieldElementWithInteger, FieldPrio2, NttFriendlyFieldElement};
use prio::vdaf::prio2::{Prio2, Prio2VerifierShare, Prio2VerifierState};
use prio::vdaf::{Aggregator, Client, Collector, OutputShare, Share, VerifyTransition};
use prio::verif::prio2 as h4;
use serde_json::{json, Value};

fn tiny<F: TinyField>(p: u64, rng: &mut Sm, out: &mut Vec<Value>, maxdim: usize, per_dim: usize) {
    let modulus = p;
    for dim in 1..=maxdim {
        for k in 0..per_dim {
            // data: binary vectors, and vectors with one or more other entries
            let data: Vec<u64> = (0..dim).map(|i| match k % 4 {
                0 => rng.below(2),
                1 => if i == (k / 4) % dim { 2 + rng.below(modulus - 2) } else { rng.below(2) },
                2 => (i as u64 + k as u64) % 2,
                _ => rng.below(modulus),
            }).collect();
            let dataf: Vec<F> = data.iter().map(|x| fe::<F>(*x)).collect();
            let proof = match guarded(|| h4::prove::<F>(dim, &dataf)) {
                Ok(Ok(p)) => p,
                other => { out.push(json!({"ev":"panic","where":"prove","dim":dim,"msg":format!("{:?}", other.map(|r| r.map(|_| ())))})); continue; }
            };
            out.push(json!({"ev":"prove","p":p,"dim":dim,"data":data,"proof":ints(&proof),"declared_len":h4::proof_length(dim)}));
            // additive sharing
            let s1: Vec<F> = (0..proof.len()).map(|_| fe::<F>(rng.below(modulus))).collect();
            let s2: Vec<F> = proof.iter().zip(s1.iter()).map(|(a, b)| *a - *b).collect();
            for t in 0..3 {
                let r = fe::<F>(if t == 0 { 1 } else { rng.below(modulus) });
                let mut vs = Vec::new();
                for (sh, first) in [(&s1, true), (&s2, false)] {
                    match guarded(|| h4::verification_message::<F>(dim, r, sh, first)) {
                        Ok(Ok(v)) => {
                            out.push(json!({"ev":"vmsg","p":p,"dim":dim,"r":r.to_u32(),"share":ints(sh),"first":first,"ok":true,"out":[v.0.to_u32(), v.1.to_u32(), v.2.to_u32()]}));
                            vs.push(v);
                        }
                        Ok(Err(_)) => out.push(json!({"ev":"vmsg","p":p,"dim":dim,"r":r.to_u32(),"share":ints(sh),"first":first,"ok":false,"out":[]})),
                        Err(m) => out.push(json!({"ev":"panic","where":"verification_message","msg":m})),
                    }
                }
                if vs.len() == 2 {
                    let ok = h4::is_valid_share::<F>(vs[0], vs[1]);
                    out.push(json!({"ev":"valid","p":p,"v1":[vs[0].0.to_u32(), vs[0].1.to_u32(), vs[0].2.to_u32()],"v2":[vs[1].0.to_u32(), vs[1].1.to_u32(), vs[1].2.to_u32()],"out":ok}));
                }
            }
            // a share of the wrong length is refused
            let short = &s1[..s1.len() - 1];
            let r = guarded(|| h4::verification_message::<F>(dim, fe::<F>(3), short, true));
            out.push(json!({"ev":"vmsg","p":p,"dim":dim,"r":3,"share":ints(short),"first":true,"ok":matches!(r, Ok(Ok(_))),"out":[]}));
        }
    }
}

fn run_once(v: &Prio2, key: &[u8; 32], nonce: &[u8; 16], shares: &[Share<FieldPrio2, 32>], codec_ok: &mut bool) -> Option<Vec<OutputShare<FieldPrio2>>> {
    let mut states = Vec::new();
    let mut vshares = Vec::new();
    for (j, sh) in shares.iter().enumerate() {
        // every message through its wire encoding
        let enc = sh.get_encoded().unwrap();
        let sh2 = Share::<FieldPrio2, 32>::get_decoded_with_param(&(v, j), &enc).ok()?;
        if sh2.get_encoded().unwrap() != enc { *codec_ok = false; }
        let (st, vs) = v.verify_init(key, b"c19", j, &(), nonce, &(), &sh2).ok()?;
        let (se, ve) = (st.get_encoded().unwrap(), vs.get_encoded().unwrap());
        let st2 = Prio2VerifierState::get_decoded_with_param(&(v, j), &se).ok()?;
        let vs2 = Prio2VerifierShare::get_decoded_with_param(&st2, &ve).ok()?;
        if st2 != st || vs2.get_encoded().unwrap() != ve || st.encoded_len() != Some(se.len()) || vs.encoded_len() != Some(ve.len()) { *codec_ok = false; }
        states.push(st2);
        vshares.push(vs2);
    }
    v.verifier_shares_to_message(b"c19", &(), vshares).ok()?;
    let mut outs = Vec::new();
    for st in states {
        match v.verify_next(b"c19", st, ()).ok()? {
            VerifyTransition::Finish(o) => outs.push(o),
            _ => return None,
        }
    }
    Some(outs)
}

fn real(rng: &mut Sm, out: &mut Vec<Value>, dims: &[usize], nkeys: usize) {
    for &dim in dims {
        let v = Prio2::new(dim).unwrap();
        // honest batch
        let nmeas = 3;
        let mut ms: Vec<Vec<u32>> = Vec::new();
        let mut accepted = Vec::new();
        let mut aggs: Vec<Vec<OutputShare<FieldPrio2>>> = vec![Vec::new(), Vec::new()];
        let mut codec_ok = true;
        for _ in 0..nmeas {
            let m: Vec<u32> = (0..dim).map(|_| rng.below(2) as u32).collect();
            let nonce: [u8; 16] = rng.bytes(16).try_into().unwrap();
            let key: [u8; 32] = rng.bytes(32).try_into().unwrap();
            let (_, shares) = v.shard(b"c19", &m, &nonce).unwrap();
            match run_once(&v, &key, &nonce, &shares, &mut codec_ok) {
                Some(o) => { accepted.push(true); for (j, x) in o.into_iter().enumerate() { aggs[j].push(x); } }
                None => accepted.push(false),
            }
            ms.push(m);
        }
        let result = if accepted.iter().all(|a| *a) {
            let a0 = v.aggregate(&(), aggs[0].clone()).unwrap();
            let a1 = v.aggregate(&(), aggs[1].clone()).unwrap();
            v.unshard(&(), [a0, a1], nmeas).unwrap()
        } else { vec![] };
        out.push(json!({"ev":"run","kind":"honest","dim":dim,"accepted":accepted,"ms":ms,"result":result,"codec_ok":codec_ok}));
        // non-binary vectors and tampered shares, each under several independent verification keys
        let positions: Vec<usize> = vec![0, dim / 2, dim - 1];
        for (which, pos) in positions.iter().enumerate() {
            for kind in ["nonbinary", "tamper_leader", "tamper_proof"] {
                let mut m: Vec<u32> = (0..dim).map(|_| rng.below(2) as u32).collect();
                if kind == "nonbinary" { m[*pos] = 2 + which as u32 * 1000; }
                let nonce: [u8; 16] = rng.bytes(16).try_into().unwrap();
                let (_, mut shares) = v.shard(b"c19", &m, &nonce).unwrap();
                if kind != "nonbinary" {
                    if let Share::Leader(ref mut data) = shares[0] {
                        let i = if kind == "tamper_leader" { *pos } else { dim + (*pos % (data.len() - dim)) };
                        data[i] += FieldPrio2::one();
                    }
                }
                let mut acc = Vec::new();
                let mut cok = true;
                for _ in 0..nkeys {
                    let key: [u8; 32] = rng.bytes(32).try_into().unwrap();
                    acc.push(run_once(&v, &key, &nonce, &shares, &mut cok).is_some());
                }
                out.push(json!({"ev":"run","kind":kind,"dim":dim,"accepted":acc,"pos":pos}));
            }
        }
    }
}

fn choose(rng: &mut Sm, out: &mut Vec<Value>, dims: &[usize]) {
    let p = BigUint::from(<FieldPrio2 as FieldElementWithInteger>::modulus());
    for &dim in dims {
        let v = Prio2::new(dim).unwrap();
        let n2 = 2 * (dim + 1).next_power_of_two();
        let logn2 = n2.trailing_zeros() as usize;
        let w = FieldPrio2::root(logn2).unwrap();
        for roots_before in [0usize, 1, 2, 5] {
            // stream: roots of unity of order dividing 2n, then arbitrary elements
            let mut elems: Vec<FieldPrio2> = (0..roots_before).map(|i| w.pow((1 + 3 * i as u32 + rng.below(7) as u32) % n2 as u32)).collect();
            if roots_before > 0 { elems[0] = FieldPrio2::one(); }
            for _ in 0..3 { elems.push(FieldPrio2::from(rng.next() as u32 % 4_000_000_000)); }
            let mut bytes = Vec::new();
            for e in &elems { e.encode(&mut bytes).unwrap(); }
            let got = guarded(|| h4::choose_eval_at(&v, ScriptedRng::new(bytes.clone())));
            let Ok(got) = got else { out.push(json!({"ev":"panic","where":"choose_eval_at"})); continue };
            let nat = |x: &FieldPrio2| BigUint::from(u32::from(*x));
            let mut chains = Vec::new();
            let mut qs = Vec::new();
            for e in &elems {
                let mut c = vec![nat(e)];
                let mut q = Vec::new();
                for _ in 0..logn2 {
                    let last = c.last().unwrap().clone();
                    q.push((&last * &last) / &p);
                    c.push((&last * &last) % &p);
                }
                chains.push(c.iter().map(limbs).collect::<Vec<_>>());
                qs.push(q.iter().map(limbs).collect::<Vec<_>>());
            }
            out.push(json!({"ev":"choose","dim":dim,"roots_before":roots_before,"stream":elems.iter().map(|e| limbs(&nat(e))).collect::<Vec<_>>(),
                            "chains":chains,"qs":qs,"out":limbs(&nat(&got))}));
        }
    }
}

pub fn record(args: &[String]) {
    let mode = args[0].as_str();
    let seed: u64 = args[1].parse().unwrap();
    let path = &args[2];
    let thorough = args.get(3).map(|s| s == "thorough").unwrap_or(false);
    let mut rng = Sm(seed);
    let mut out: Vec<Value> = Vec::new();
    match mode {
        "p17" => tiny::<prio::field::FieldV17>(17, &mut rng, &mut out, 7, if thorough { 24 } else { 8 }),
        "p193" => tiny::<prio::field::FieldV193>(193, &mut rng, &mut out, if thorough { 31 } else { 12 }, if thorough { 12 } else { 4 }),
        "p12289" => tiny::<prio::field::FieldV12289>(12289, &mut rng, &mut out, if thorough { 40 } else { 17 }, 4),
        "real" => {
            let dims: Vec<usize> = if thorough { vec![1, 2, 3, 4, 7, 8, 9, 15, 16, 17, 255, 256, 257, 1023, 4096, (1 << 16) - 1] } else { vec![1, 2, 3, 4, 7, 8, 9, 255, 256, 257] };
            real(&mut rng, &mut out, &dims, 6);
            choose(&mut rng, &mut out, &dims);
        }
        _ => panic!("mode"),
    }
    let mut s = String::new();
    for e in &out {
        s.push_str(&e.to_string());
        s.push('\n');
    }
    std::fs::write(path, s).unwrap();
    emit(json!({"t":"summary","evaluations":out.len(),"mismatches":0,"extra":{"events":out.len()}}));
}
